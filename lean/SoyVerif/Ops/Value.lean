/- Protocol operations of the value area: soft-float validation (`f64*`), value laws (`vlaws`),
   Go→Soy conversion (`convert`).  Core-only. -/
import SoyVerif.Ops.Common
import SoyVerif.Base.F64
import SoyVerif.Model.Value
import SoyVerif.Model.Convert

namespace SoyVerif.Ops.Value
open SoyVerif SoyVerif.Ops

def parseHexNat (s : String) : Option Nat :=
  s.toList.foldl (fun acc c => match acc, Bytes.hexVal c with
    | some a, some d => some (a * 16 + d)
    | _, _ => none) (some 0)

def hex64 (n : Nat) : String :=
  String.ofList ((List.range 16).reverse.map fun i => Bytes.hexDigit ((n / 16 ^ i) % 16))

def f64Of (s : String) : Option F64 :=
  if s.length == 16 then (parseHexNat s).map F64.ofNatBits else none

def f64Hex (x : F64) : String := hex64 (if x.isNaN then F64.nan else x).bits.toNat

def bin (f : F64 → F64 → F64) : List String → String
  | [a, b] => match f64Of a, f64Of b with
    | some x, some y => "OK " ++ f64Hex (f x y)
    | _, _ => "BADREQ"
  | _ => "BADREQ"

def un (f : F64 → F64) : List String → String
  | [a] => match f64Of a with
    | some x => "OK " ++ f64Hex (f x)
    | _ => "BADREQ"
  | _ => "BADREQ"

def rel (f : F64 → F64 → Bool) : List String → String
  | [a, b] => match f64Of a, f64Of b with
    | some x, some y => if f x y then "OK 1" else "OK 0"
    | _, _ => "BADREQ"
  | _ => "BADREQ"

def f64ops : List Op := [
  ("f64add", bin F64.add), ("f64sub", bin F64.sub), ("f64mul", bin F64.mul), ("f64div", bin F64.div),
  ("f64lt", rel F64.lt), ("f64le", rel F64.le), ("f64eq", rel F64.eq),
  ("f64floor", un F64.floor), ("f64ceil", un F64.ceil), ("f64neg", un F64.neg),
  ("f64ofint", fun f => match f with
    | [a] => match (if a.length == 16 then parseHexNat a else none) with
      | some n => "OK " ++ f64Hex (F64.ofInt64 (UInt64.ofNat n).toInt64)
      | none => "BADREQ"
    | _ => "BADREQ"),
  ("f64toint", fun f => match f with
    | [a] => match f64Of a with
      | some x => "OK " ++ hex64 (F64.toInt64Trunc x).toUInt64.toNat
      | none => "BADREQ"
    | _ => "BADREQ"),
  ("f64class", fun f => match f with
    | [a] => match f64Of a with
      | some x => "OK " ++ (match x.classify with
          | .zero => "zero" | .subnormal => "subnormal" | .normal => "normal" | .inf => "inf" | .nan => "nan")
          ++ (if x.sign then " -" else " +")
      | none => "BADREQ"
    | _ => "BADREQ"),
  ("f64parse", with1 fun s => match F64.parseDecimal s with
    | some x => "OK " ++ f64Hex x
    | none => "ERR"),
  ("f64fmt", fun f => match f with
    | [a] => match f64Of a with
      | some x => okBytes x.format
      | none => "BADREQ"
    | _ => "BADREQ")
]


/-! ### wire codec: prefix encoding of trees as comma-separated tokens

  Value:  U N T F  I<hex16>  D<hex16>  S<hex>  L<id>.<n> v…  M<id>.<n> (K<hex> v)…
  GoVal:  n  b0 b1  i<w>.<hex16>  u<w>.<hex16>  f<hex16> (float32, widened)  d<hex16>  s<hex>  t<hex>
          A<typed>.<n> g…  a   O<typed>.<n> (K<hex> g)…  o   X<n>   R<n> (F<exported><embedded>.<hexname> g)…
          P g   p   C g   V v   Y<ptrRecv> v   y   Z<variant>
-/

def natOf (s : String) : Option Nat := s.toNat?

def splitDot (s : String) : Option (String × String) :=
  match s.splitOn "." with
  | [a, b] => some (a, b)
  | _ => none

def payload (t : String) : String := (t.drop 1).toString

def decKey : List String → Option (Bytes × List String)
  | t :: r => if t.startsWith "K" then (Bytes.ofHex (payload t)).map (·, r) else none
  | [] => none

mutual
def decValue : Nat → List String → Option (Value × List String)
  | 0, _ => none
  | _, [] => none
  | fuel + 1, t :: r =>
    let p := payload t
    match t.front with
    | 'U' => some (.undefined, r)
    | 'N' => some (.null, r)
    | 'T' => some (.bool true, r)
    | 'F' => some (.bool false, r)
    | 'I' => (if p.length == 16 then parseHexNat p else none).map fun n => (.int (UInt64.ofNat n).toInt64, r)
    | 'D' => (f64Of p).map fun x => (.float x, r)
    | 'S' => (Bytes.ofHex p).map fun b => (.str b, r)
    | 'L' => match splitDot p with
      | some (a, b) => match natOf a, natOf b with
        | some id, some n => (decValues fuel n r).map fun (xs, r') => (.list id xs, r')
        | _, _ => none
      | none => none
    | 'M' => match splitDot p with
      | some (a, b) => match natOf a, natOf b with
        | some id, some n => (decKvs fuel n r).map fun (xs, r') => (.map id xs, r')
        | _, _ => none
      | none => none
    | _ => none
def decValues : Nat → Nat → List String → Option (List Value × List String)
  | _, 0, r => some ([], r)
  | 0, _, _ => none
  | fuel + 1, n + 1, r => match decValue fuel r with
    | some (v, r') => (decValues fuel n r').map fun (vs, r'') => (v :: vs, r'')
    | none => none
def decKvs : Nat → Nat → List String → Option (List (Bytes × Value) × List String)
  | _, 0, r => some ([], r)
  | 0, _, _ => none
  | fuel + 1, n + 1, r => match decKey r with
    | some (k, r1) => match decValue fuel r1 with
      | some (v, r') => (decKvs fuel n r').map fun (vs, r'') => ((k, v) :: vs, r'')
      | none => none
    | none => none
end

def i64Hex (i : Int64) : String := hex64 i.toUInt64.toNat

mutual
def encValue : Value → List String
  | .undefined => ["U"]
  | .null => ["N"]
  | .bool b => [if b then "T" else "F"]
  | .int i => ["I" ++ i64Hex i]
  | .float f => ["D" ++ f64Hex f]
  | .str s => ["S" ++ Bytes.toHexWire s]
  | .list id xs => ("L" ++ toString id ++ "." ++ toString xs.length) :: encValues xs
  | .map id kvs => ("M" ++ toString id ++ "." ++ toString kvs.length) :: encKvs kvs
def encValues : List Value → List String
  | [] => []
  | x :: xs => encValue x ++ encValues xs
def encKvs : List (Bytes × Value) → List String
  | [] => []
  | (k, v) :: r => ("K" ++ Bytes.toHexWire k) :: (encValue v ++ encKvs r)
end

def intKindOf : String → Option IntKind
  | "0" => some .int | "8" => some .int8 | "16" => some .int16 | "32" => some .int32 | "64" => some .int64
  | _ => none
def uintKindOf : String → Option UintKind
  | "0" => some .uint | "8" => some .uint8 | "16" => some .uint16 | "32" => some .uint32 | "64" => some .uint64
  | _ => none
def intKindStr : IntKind → String
  | .int => "0" | .int8 => "8" | .int16 => "16" | .int32 => "32" | .int64 => "64"
def uintKindStr : UintKind → String
  | .uint => "0" | .uint8 => "8" | .uint16 => "16" | .uint32 => "32" | .uint64 => "64"

/-- the one marshaler shape the harness can build: `struct{ V data.Value }` with the method returning `V` -/
def marshalerUnder (r : Value) : GoVal := .struct [([86], true, .value r)]

mutual
def decGo : Nat → List String → Option (GoVal × List String)
  | 0, _ => none
  | _, [] => none
  | fuel + 1, t :: r =>
    let p := payload t
    match t.front with
    | 'n' => some (.nil, r)
    | 'b' => some (.bool (p == "1"), r)
    | 'i' => match splitDot p with
      | some (w, h) => match intKindOf w, (if h.length == 16 then parseHexNat h else none) with
        | some k, some n => some (.int k (UInt64.ofNat n).toInt64, r)
        | _, _ => none
      | none => none
    | 'u' => match splitDot p with
      | some (w, h) => match uintKindOf w, (if h.length == 16 then parseHexNat h else none) with
        | some k, some n => some (.uint k (UInt64.ofNat n), r)
        | _, _ => none
      | none => none
    | 'f' => (f64Of p).map fun x => (.float32 x, r)
    | 'd' => (f64Of p).map fun x => (.float64 x, r)
    | 's' => (Bytes.ofHex p).map fun b => (.string b, r)
    | 't' => (Bytes.ofHex p).map fun b => (.time b, r)
    | 'A' => match splitDot p with
      | some (_, b) => match natOf b with
        | some n => (decGos fuel n r).map fun (xs, r') => (.slice xs, r')
        | none => none
      | none => none
    | 'a' => some (.nilSlice, r)
    | 'O' => match splitDot p with
      | some (_, b) => match natOf b with
        | some n => (decGoKvs fuel n r).map fun (xs, r') => (.strMap xs, r')
        | none => none
      | none => none
    | 'o' => some (.nilMap, r)
    | 'X' => (natOf p).map fun n => (.keyedMap n, r)
    | 'R' => match natOf p with
      | some n => (decFields fuel n r).map fun (fs, r') => (.struct fs, r')
      | none => none
    | 'P' => (decGo fuel r).map fun (g, r') => (.ptr g, r')
    | 'p' => some (.nilPtr, r)
    | 'C' => (decGo fuel r).map fun (g, r') => (.iface g, r')
    | 'V' => (decValue fuel r).map fun (v, r') => (.value v, r')
    | 'Y' => (decValue fuel r).map fun (v, r') => (.marshaler (p == "1") v (marshalerUnder v), r')
    | 'y' => some (.nilMarshalerPtr, r)
    | 'Z' => some (.unsupported, r)
    | _ => none
def decGos : Nat → Nat → List String → Option (List GoVal × List String)
  | _, 0, r => some ([], r)
  | 0, _, _ => none
  | fuel + 1, n + 1, r => match decGo fuel r with
    | some (v, r') => (decGos fuel n r').map fun (vs, r'') => (v :: vs, r'')
    | none => none
def decGoKvs : Nat → Nat → List String → Option (List (Bytes × GoVal) × List String)
  | _, 0, r => some ([], r)
  | 0, _, _ => none
  | fuel + 1, n + 1, r => match decKey r with
    | some (k, r1) => match decGo fuel r1 with
      | some (v, r') => (decGoKvs fuel n r').map fun (vs, r'') => ((k, v) :: vs, r'')
      | none => none
    | none => none
def decFields : Nat → Nat → List String → Option (List (Bytes × Bool × GoVal) × List String)
  | _, 0, r => some ([], r)
  | 0, _, _ => none
  | fuel + 1, n + 1, r => match r with
    | t :: r1 =>
      if t.startsWith "F" then
        match splitDot (payload t) with
        | some (fl, h) => match Bytes.ofHex h, decGo fuel r1 with
          | some name, some (v, r') =>
            (decFields fuel n r').map fun (fs, r'') => ((name, fl.front == '1', v) :: fs, r'')
          | _, _ => none
        | none => none
      else none
    | [] => none
end

/- encoder of the Go-value descriptions (only used by the codec round-trip test `gecho`; the flags the
   model ignores — typed containers, embedded fields, unsupported variant — are not preserved) -/
mutual
def encGo : GoVal → List String
  | .nil => ["n"]
  | .bool b => [if b then "b1" else "b0"]
  | .int k i => ["i" ++ intKindStr k ++ "." ++ i64Hex i]
  | .uint k u => ["u" ++ uintKindStr k ++ "." ++ hex64 u.toNat]
  | .float32 f => ["f" ++ hex64 f.bits.toNat]
  | .float64 f => ["d" ++ hex64 f.bits.toNat]
  | .string b => ["s" ++ Bytes.toHexWire b]
  | .time b => ["t" ++ Bytes.toHexWire b]
  | .slice xs => ("A0." ++ toString xs.length) :: encGos xs
  | .nilSlice => ["a"]
  | .strMap kvs => ("O0." ++ toString kvs.length) :: encGoKvs kvs
  | .nilMap => ["o"]
  | .keyedMap n => ["X" ++ toString n]
  | .struct fs => ("R" ++ toString fs.length) :: encFields fs
  | .ptr g => "P" :: encGo g
  | .nilPtr => ["p"]
  | .iface g => "C" :: encGo g
  | .value v => "V" :: encValue v
  | .marshaler pr r _ => (if pr then "Y1" else "Y0") :: encValue r
  | .nilMarshalerPtr => ["y"]
  | .unsupported => ["Z0"]
def encGos : List GoVal → List String
  | [] => []
  | x :: xs => encGo x ++ encGos xs
def encGoKvs : List (Bytes × GoVal) → List String
  | [] => []
  | (k, v) :: r => ("K" ++ Bytes.toHexWire k) :: (encGo v ++ encGoKvs r)
def encFields : List (Bytes × Bool × GoVal) → List String
  | [] => []
  | (name, ex, v) :: r => ("F" ++ (if ex then "1" else "0") ++ "0." ++ Bytes.toHexWire name) :: (encGo v ++ encFields r)
end

def tokens (s : String) : List String := s.splitOn ","
def untokens (ts : List String) : String := ",".intercalate ts

def valueOfField (s : String) : Option Value :=
  let ts := tokens s
  match decValue (2 * ts.length + 2) ts with
  | some (v, []) => some v
  | _ => none

def goOfField (s : String) : Option GoVal :=
  let ts := tokens s
  match decGo (2 * ts.length + 2) ts with
  | some (g, []) => some g
  | _ => none

/-! ### canonical form of a conversion result: maps sorted by key, identities renumbered by first
    occurrence in a preorder walk (what `Equals` can observe: nil, the shared empty list, aliasing) -/

def insertKv (x : Bytes × Value) : List (Bytes × Value) → List (Bytes × Value)
  | [] => [x]
  | y :: ys => if Value.bytesLe x.1 y.1 then x :: y :: ys else y :: insertKv x ys

def sortKvs : List (Bytes × Value) → List (Bytes × Value)
  | [] => []
  | x :: xs => insertKv x (sortKvs xs)

structure Renum where
  lists : List (Nat × Nat) := []
  maps : List (Nat × Nat) := []
  next : Nat := 2

def Renum.list (st : Renum) (id len : Nat) : Nat × Renum :=
  if id == 0 then (0, st)
  else if len == 0 then (1, st)
  else match st.lists.lookup id with
    | some k => (k, st)
    | none => (st.next, { st with lists := (id, st.next) :: st.lists, next := st.next + 1 })

def Renum.map (st : Renum) (id : Nat) : Nat × Renum :=
  if id == 0 then (0, st)
  else match st.maps.lookup id with
    | some k => (k, st)
    | none => (st.next, { st with maps := (id, st.next) :: st.maps, next := st.next + 1 })

/-- the walk needs the map entries sorted first; sorting is not structural, hence the fuel -/
def canon : Nat → Value → Renum → Value × Renum
  | 0, v, st => (v, st)
  | fuel + 1, .list id xs, st =>
    let (k, st) := st.list id xs.length
    let (ys, st) := xs.foldl (fun (acc : List Value × Renum) x =>
      let (y, st') := canon fuel x acc.2; (acc.1 ++ [y], st')) ([], st)
    (.list k ys, st)
  | fuel + 1, .map id kvs, st =>
    let (k, st) := st.map id
    let (ys, st) := (sortKvs kvs).foldl (fun (acc : List (Bytes × Value) × Renum) kv =>
      let (y, st') := canon fuel kv.2 acc.2; (acc.1 ++ [(kv.1, y)], st')) ([], st)
    (.map k ys, st)
  | _ + 1, v, st => (v, st)

mutual
def depth : Value → Nat
  | .list _ xs => depthList xs + 1
  | .map _ kvs => depthKvs kvs + 1
  | _ => 1
def depthList : List Value → Nat
  | [] => 0
  | x :: xs => max (depth x) (depthList xs)
def depthKvs : List (Bytes × Value) → Nat
  | [] => 0
  | (_, v) :: r => max (depth v) (depthKvs r)
end

def canonical (v : Value) : Value := (canon (depth v + 1) v {}).1

def strTok : Option Bytes → String
  | some b => Bytes.toHexWire b
  | none => "PANIC"

def valueOps : List Op := [
  -- codec round trips (unit tests of the decoders/encoders, run before everything else)
  ("vecho", fun f => match f with
    | [s] => match valueOfField s with
      | some v => "OK " ++ untokens (encValue v)
      | none => "BADREQ"
    | _ => "BADREQ"),
  ("gecho", fun f => match f with
    | [s] => match goOfField s with
      | some g => "OK " ++ untokens (encGo g)
      | none => "BADREQ"
    | _ => "BADREQ"),
  ("vlaws", fun f => match f with
    | [a, b] => match valueOfField a, valueOfField b with
      | some x, some y =>
        "OK " ++ (if x.truthy then "1" else "0") ++ " " ++ (if y.truthy then "1" else "0") ++ " " ++
          (if x.equals y then "1" else "0") ++ " " ++ (if y.equals x then "1" else "0") ++ " " ++
          strTok x.render ++ " " ++ strTok y.render ++ " " ++
          -- printing under the reversed iteration order: must not be observable
          strTok (x.toString List.reverse) ++ " " ++ strTok (y.toString List.reverse)
      | _, _ => "BADREQ"
    | _ => "BADREQ"),
  ("vindex", fun f => match f with
    | [a, i] => match valueOfField a, (if i.length == 16 then parseHexNat i else none) with
      | some (.list _ xs), some n =>
        "OK " ++ untokens (encValue (canonical (Value.index xs (UInt64.ofNat n).toInt64.toInt)))
      | _, _ => "BADREQ"
    | _ => "BADREQ"),
  ("vkey", fun f => match f with
    | [a, k] => match valueOfField a, Bytes.ofHex k with
      | some (.map _ kvs), some kb => "OK " ++ untokens (encValue (canonical (Value.key kvs kb)))
      | _, _ => "BADREQ"
    | _ => "BADREQ"),
  ("convert", fun f => match f with
    | [g, lc] => match goOfField g with
      | some gv => match Convert.convert (flag lc) gv with
        | some v => "OK " ++ untokens (encValue (canonical v)) ++ " R1"
        | none => "PANIC"
      | none => "BADREQ"
    | _ => "BADREQ"),
  ("lowerfirst", with1 fun s => okBytes (Convert.lowerFirst s))
]

def ops : List Op := f64ops ++ valueOps

end SoyVerif.Ops.Value
