/- Protocol operations of the value area: soft-float validation (`f64*`), value laws (`vlaws`),
   Go→Soy conversion (`convert`).  Core-only. -/
import SoyVerif.Ops.Common
import SoyVerif.Base.F64

namespace SoyVerif.Ops.Value
open SoyVerif SoyVerif.Ops

def parseHexNat (s : String) : Option Nat :=
  s.toList.foldl (fun acc c => match acc, Bytes.hexVal c with
    | some a, some d => some (a * 16 + d)
    | _, _ => none) (some 0)

def hex64 (n : Nat) : String :=
  String.ofList ((List.range 16).reverse.map fun i => Bytes.hexDigit ((n / 16 ^ i) % 16))

def f64Of (s : String) : Option F64 :=
  if s.length == 16 then (parseHexNat s).map F64.ofNatBits else none

def f64Hex (x : F64) : String := hex64 (if x.isNaN then F64.nan else x).bits.toNat

def bin (f : F64 → F64 → F64) : List String → String
  | [a, b] => match f64Of a, f64Of b with
    | some x, some y => "OK " ++ f64Hex (f x y)
    | _, _ => "BADREQ"
  | _ => "BADREQ"

def un (f : F64 → F64) : List String → String
  | [a] => match f64Of a with
    | some x => "OK " ++ f64Hex (f x)
    | _ => "BADREQ"
  | _ => "BADREQ"

def rel (f : F64 → F64 → Bool) : List String → String
  | [a, b] => match f64Of a, f64Of b with
    | some x, some y => if f x y then "OK 1" else "OK 0"
    | _, _ => "BADREQ"
  | _ => "BADREQ"

def f64ops : List Op := [
  ("f64add", bin F64.add), ("f64sub", bin F64.sub), ("f64mul", bin F64.mul), ("f64div", bin F64.div),
  ("f64lt", rel F64.lt), ("f64le", rel F64.le), ("f64eq", rel F64.eq),
  ("f64floor", un F64.floor), ("f64ceil", un F64.ceil), ("f64neg", un F64.neg),
  ("f64ofint", fun f => match f with
    | [a] => match (if a.length == 16 then parseHexNat a else none) with
      | some n => "OK " ++ f64Hex (F64.ofInt64 (UInt64.ofNat n).toInt64)
      | none => "BADREQ"
    | _ => "BADREQ"),
  ("f64toint", fun f => match f with
    | [a] => match f64Of a with
      | some x => "OK " ++ hex64 (F64.toInt64Trunc x).toUInt64.toNat
      | none => "BADREQ"
    | _ => "BADREQ"),
  ("f64class", fun f => match f with
    | [a] => match f64Of a with
      | some x => "OK " ++ (match x.classify with
          | .zero => "zero" | .subnormal => "subnormal" | .normal => "normal" | .inf => "inf" | .nan => "nan")
          ++ (if x.sign then " -" else " +")
      | none => "BADREQ"
    | _ => "BADREQ"),
  ("f64parse", with1 fun s => match F64.parseDecimal s with
    | some x => "OK " ++ f64Hex x
    | none => "ERR"),
  ("f64fmt", fun f => match f with
    | [a] => match f64Of a with
      | some x => okBytes x.format
      | none => "BADREQ"
    | _ => "BADREQ")
]

def ops : List Op := f64ops

end SoyVerif.Ops.Value
