/-
  Protocol operations of the message-id / placeholder-name area (C10, C11 `parts`).

  `msgid` carries the abstract message body as one field of comma-separated tokens
  (prefix encoding):
      body  := COUNT part*
      part  := `T`hex | `P`hexbase`:`hexsrc
             | `L`hexbase`:`hexsrc`:`NCASES (`C`int`:`COUNT part*)^NCASES `D`COUNT part*
  The model is run under several map-iteration orders derived from the seed; all must
  give the same observation, otherwise the answer is `ORDER-DEPENDENT`.
-/
import SoyVerif.Ops.Common
import SoyVerif.Model.Msg
import SoyVerif.Model.MsgRender

namespace SoyVerif.Ops.Msg
open SoyVerif SoyVerif.Ops SoyVerif.Model.Msg

/-- a seeded shuffle (pick-and-remove with an LCG): one Go map iteration order -/
def shuffle {α : Type} (seed : Nat) (l : List α) : List α :=
  go l.length seed l
where
  go : Nat → Nat → List α → List α
    | 0, _, l => l
    | f + 1, s, l =>
      match l with
      | [] => []
      | _ :: _ =>
        let s' := (s * 6364136223846793005 + 1442695040888963407) % 18446744073709551616
        let i := (s' / 8589934592) % l.length
        match l[i]? with
        | some x => x :: go f s' (l.eraseIdx i)
        | none => l

def ordersOfSeed (seed : Nat) : List Orders := [
  Orders.id,
  ⟨List.reverse, List.reverse, List.reverse, List.reverse⟩,
  ⟨shuffle (seed + 1), shuffle (seed + 2), shuffle (seed + 3), shuffle (seed + 4)⟩,
  ⟨shuffle (seed + 5), List.reverse, shuffle (seed + 6), fun l => l⟩,
  ⟨shuffle (seed * 7 + 11), shuffle (seed * 7 + 12), shuffle (seed * 7 + 13), shuffle (seed * 7 + 14)⟩,
  ⟨shuffle (seed * 13 + 1), shuffle (seed * 13 + 2), List.reverse, shuffle (seed * 13 + 3)⟩
]

/-! ### decoding the abstract body -/

def hex2 (s : String) : Option (Bytes × Bytes) :=
  match s.splitOn ":" with
  | [a, b] => do pure (← Bytes.ofHex a, ← Bytes.ofHex b)
  | _ => none

mutual
partial def parsePart : List String → Option (Part × List String)
  | [] => none
  | tok :: rest =>
    let kind := tok.take 1
    let arg := (tok.drop 1).toString
    if kind == "T" then (Bytes.ofHex arg).map fun b => (.text b, rest)
    else if kind == "P" then (hex2 arg).map fun (b, s) => (.ph b s, rest)
    else if kind == "L" then
      match arg.splitOn ":" with
      | [hb, hs, nc] => do
        let b ← Bytes.ofHex hb
        let s ← Bytes.ofHex hs
        let n ← nc.toNat?
        let (cases, rest) ← parseCases n rest
        match rest with
        | d :: rest =>
          if d.take 1 == "D" then do
            let k ← (d.drop 1).toString.toNat?
            let (dflt, rest) ← parseParts k rest
            pure (.plural b s cases dflt, rest)
          else none
        | [] => none
      | _ => none
    else none
partial def parseParts : Nat → List String → Option (List Part × List String)
  | 0, rest => some ([], rest)
  | n + 1, rest => do
    let (p, rest) ← parsePart rest
    let (ps, rest) ← parseParts n rest
    pure (p :: ps, rest)
partial def parseCases : Nat → List String → Option (List (Int × List Part) × List String)
  | 0, rest => some ([], rest)
  | n + 1, tok :: rest =>
    if tok.take 1 == "C" then
      match (tok.drop 1).toString.splitOn ":" with
      | [v, k] => do
        let v ← v.toInt?
        let k ← k.toNat?
        let (body, rest) ← parseParts k rest
        let (cs, rest) ← parseCases n rest
        pure ((v, body) :: cs, rest)
      | _ => none
    else none
  | _ + 1, [] => none
end

def parseBody (s : String) : Option (List Part) :=
  match s.splitOn "," with
  | n :: rest => do
    let n ← n.toNat?
    let (ps, rest) ← parseParts n rest
    if rest.isEmpty then pure ps else none
  | [] => none

def namesField (ns : List Bytes) : String :=
  if ns.isEmpty then "()" else ",".intercalate (ns.map Bytes.toHexWire)

/-- the observation of one compiled message: id, names in document order, placeholder string -/
def observe (o : Orders) (m : Msg) : String :=
  "OK " ++ toString (calcID o m).toNat ++ " " ++ namesField (namesOfList (namedBody o m.body))
    ++ " " ++ Bytes.toHexWire (placeholderString o m)

def msgPartsField (ps : List MsgPart) : String :=
  if ps.isEmpty then "()" else
  ",".intercalate (ps.map fun
    | .text b => "T" ++ Bytes.toHexWire b
    | .ph n => "P" ++ Bytes.toHexWire n)

/-! ### C11: rendering translations -/

/-- `hexkey:hexval,…` (or `()`) -/
def parsePairs (s : String) : Option (List (Bytes × Bytes)) :=
  if s == "()" then some [] else
  (s.splitOn ",").mapM fun tok =>
    match tok.splitOn ":" with
    | [a, b] => do pure (← Bytes.ofHex a, ← Bytes.ofHex b)
    | _ => none

/-- `hexkey:int,…` (or `()`) -/
def parseIntPairs (s : String) : Option (List (Bytes × Int)) :=
  if s == "()" then some [] else
  (s.splitOn ",").mapM fun tok =>
    match tok.splitOn ":" with
    | [a, b] => do pure (← Bytes.ofHex a, ← b.toInt?)
    | _ => none

def parseHexList (s : String) : Option (List Bytes) :=
  if s == "()" then some [] else (s.splitOn ",").mapM Bytes.ofHex

/-- the plural selectors the harness can ask the PO loader for (Plural-Forms headers):
    0 = one form, 1 = `n != 1`, 2 = Czech/Slovak three forms -/
def selOf (kind : Nat) (n : Int) : Int :=
  match kind with
  | 0 => 0
  | 1 => if n != 1 then 1 else 0
  | _ => if n == 1 then 0 else if n ≥ 2 && n ≤ 4 then 1 else 2

def optOut : Option Bytes → String
  | some b => okBytes b
  | none => "ERR"

def optHexOrPanic : Option Bytes → String
  | some b => Bytes.toHexWire b
  | none => "PANIC"

def ops : List Op := [
  -- msgrender <soy file> <abstract body> <ρ pairs> <ν pairs> <mode> <varName> <msgstrs> <selector> <data ints (impl only)>
  ("msgrender", fun f => match f with
    | [_, body, rho, nu, mode, var, strs, selk, _] =>
      match parseBody body, parsePairs rho, parseIntPairs nu, Bytes.ofHex var, parseHexList strs, selk.toNat? with
      | some body, some rho, some nu, some var, some strs, some selk =>
        let ρ : Bytes → Bytes := fun s => (rho.lookup s).getD []
        let ν : Bytes → Int := fun s => (nu.lookup s).getD 0
        let R := rbody Orders.id body
        let bundle : Option Bundle :=
          if mode == "nobundle" then none
          else if mode == "missing" then some ⟨fun _ => none, selOf selk⟩
          else some (poBundle 0 var strs (selOf selk))
        optOut (evalMsg ρ ν bundle 0 R)
      | _, _, _, _, _, _ => "BADREQ"
    | _ => "BADREQ"),
  -- pomsgid <soy file> <abstract body>
  ("pomsgid", fun f => match f with
    | [_, body] =>
      match parseBody body with
      | some body =>
        let R := rbody Orders.id body
        "OK " ++ (if validate R then "1" else "0") ++ " " ++ optHexOrPanic (msgid R) ++ " " ++ optHexOrPanic (msgidPlural R)
      | none => "BADREQ"
    | _ => "BADREQ"),
  ("fp", with1 fun b => "OK " ++ toString (fingerprint b).toNat),
  ("hash32", fun f => match f with
    | [s, c] => match Bytes.ofHex s, c.toNat? with
      | some b, some c => "OK " ++ toString (hash32 b (UInt32.ofNat c)).toNat
      | _, _ => "BADREQ"
    | _ => "BADREQ"),
  ("upperunderscore", with1 fun b => okBytes (toUpperUnderscore b)),
  ("tagname", with1 fun b => match tagName b, htmlBaseName b with
    | some (name, ty), some base =>
      "OK " ++ Bytes.toHexWire name ++ " " ++ Bytes.toHexWire ty ++ " " ++ Bytes.toHexWire base
    | _, _ => "PANIC"),
  ("parts", with1 fun b => "OK " ++ msgPartsField (parts b)),
  -- msgid <template> <variant template> <meaning> <abstract body> <seed>
  ("msgid", fun f => match f with
    | [_, _, meaning, body, seed] =>
      match Bytes.ofHex meaning, parseBody body, seed.toNat? with
      | some meaning, some body, some seed =>
        let m : Msg := ⟨meaning, [], body⟩
        let obs := (ordersOfSeed seed).map (observe · m)
        match obs with
        | first :: rest => if rest.all (· == first) then first else "ORDER-DEPENDENT " ++ " | ".intercalate obs
        | [] => "BADREQ"
      | _, _, _ => "BADREQ"
    | _ => "BADREQ")
]

end SoyVerif.Ops.Msg
