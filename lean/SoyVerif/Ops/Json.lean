/- Protocol operations of the `json` directive on values (C16json). Core-only.
   `jsonval <value>`  : the model of json.Marshal on a Soy value (wire codec of Ops/Value.lean);
                        `ERR` = Marshal fails (NaN, ±Inf somewhere in the value)
   `jsondec <hex>`    : the SPECIFICATION decoder (Spec/Json.lean, RFC 8259) on a text: a canonical
                        print of the JSON value, `ERR` if the text is not JSON -/
import SoyVerif.Ops.Common
import SoyVerif.Ops.Value
import SoyVerif.Model.JsonMarshal
import SoyVerif.Spec.Json

namespace SoyVerif.Ops.Json
open SoyVerif SoyVerif.Ops SoyVerif.Spec.Json

/-- canonical print: n, t, f, #<literal>, s<hex>, [ … ], { k<hex> … } -/
partial def showJ : JVal → String
  | .null => "n"
    | .bool true => "t"
    | .bool false => "f"
    | .num lit => "#" ++ String.ofList (lit.map fun b => Char.ofNat b.toNat)
    | .str s => "s" ++ Bytes.toHexWire s
    | .arr xs => "[" ++ " ".intercalate (xs.map showJ) ++ "]"
    | .obj kvs => "{" ++ " ".intercalate (kvs.map fun (k, v) => "k" ++ Bytes.toHexWire k ++ " " ++ showJ v) ++ "}"

def ops : List Op := [
  ("jsonval", fun f => match f with
    | [v] => match Ops.Value.valueOfField v with
      | some x => match Model.JsonMarshal.jsonMarshal x with
        | some out => okBytes out
        | none => "ERR"
      | none => "BADREQ"
    | _ => "BADREQ"),
  ("jsondec", with1 fun s => match jsonDecode s with
    | some v => "OK " ++ showJ v
    | none => "ERR")
]

end SoyVerif.Ops.Json
