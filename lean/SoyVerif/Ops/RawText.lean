import SoyVerif.Ops.Common
import SoyVerif.Model.RawText
import SoyVerif.Spec.JoinLines

namespace SoyVerif.Ops.RawText
open SoyVerif SoyVerif.Ops

def ops : List Op := [
  ("rawtext", fun f => match f with
    | [s, tb, ta] => match Bytes.ofHex s with
      | some b => optBytes (Model.rawtext b (flag tb) (flag ta))
      | none => "BADREQ"
    | _ => "BADREQ"),
  ("spec-rawtext", fun f => match f with
    | [s, tb, ta] => match Bytes.ofHex s with
      | some b => okBytes (Spec.joinLines b (flag tb) (flag ta))
      | none => "BADREQ"
    | _ => "BADREQ")
]

end SoyVerif.Ops.RawText
