/-
  Protocol operation tying the TRUSTED JavaScript semantics (Spec/JsStmt over Spec/JsSemRef — readings of
  ECMA-262) to a JavaScript engine.

  jssem  fields: sources (ignored by the model), compiled files `(files (file NAME cmds…) …)`,
         file name (hex), template name (hex, qualified), data `(m (KEY value)…)` (values as in jsgen,
         no floats), fuel[, injected data `(m …)` | `-`, globals `(globals (NAME value) …)`]
         The model translates the body of the template with `Props/C04d.toCmds` (generator scope of a
         FIRST template of a file: a fresh frame, counter 0; autoescape mode of the template, else of
         the namespace), prints the statements with `renderStmts` (indentation 1) and runs them with
         `Spec/JsStmt.execStmts` from `opt_data` = the data, `output = ''`; a `{call}` runs the callee's body the
         same way (`calleeG`, calls nested at most 8 deep) on the data object the call builds; the directive function
         soy.$$escapeHtml is read as `htmlEscape ∘ ToString`, every other library function is `unspec`.
         When EVERY template of the file is in the fragment (Props/C04f `toFile`) the model works at the FUNCTION
         level instead: the text is that of all functions of the file (`renderFunc`, the names' counter running
         through the file; marked by a trailing ` F`), and the entry function is called through the table of the
         translated functions of all such files (Spec/JsStmt `callFn`, depth 9) — no callee oracle.
         answer: `OK <hex of output> <hex of the statements' text>` | `ERROR <hex text>` (a thrown
         TypeError) | `UNSPEC <hex text>` (outside the common subset, or out of fuel) | `OUTSIDE`
         (the body is not in the fragment) | `NOFILE` | `NOTEMPLATE` | `BADTREE` | `BADREQ`
-/
import SoyVerif.Ops.Common
import SoyVerif.Ops.Check
import SoyVerif.Ops.JsGen
import SoyVerif.Props.C04d
import SoyVerif.Props.C04e
import SoyVerif.Props.C04f

namespace SoyVerif.Ops.JsSem
open SoyVerif SoyVerif.Ops SoyVerif.Model SoyVerif.Model.JsGen SExp
open SoyVerif.Spec.JsSemRef SoyVerif.Spec.JsStmt SoyVerif.Props.C04d SoyVerif.Props.C04f

partial def decJVal : SExp → Option JVal
  | list [atom "u"] => some .undefined
  | list [atom "n"] => some .null
  | list [atom "b", b] => (asBool b).map .bool
  | list [atom "i", i] => (asInt i).map .num
  | list [atom "s", h] => (asBytes h).map .str
  | list (atom "l" :: xs) => (xs.mapM decJVal).map .arr
  | list (atom "m" :: kvs) =>
    (kvs.mapM fun kv => match kv with
      | list [k, v] => do pure ((← asBytes k), (← decJVal v))
      | _ => none).map .obj
  | _ => none

/-- soy.$$escapeHtml; the other library functions are not interpreted -/
def libF (name : Bytes) (args : List Expr) (jv : JVal) : JOut :=
  if name == escapeHtmlName && args.isEmpty then
    match toStr? jv with
    | some s => .val (.str (htmlEscape s))
    | none => .unspec
  else .unspec

/-- the template node and the autoescape mode in force for it -/
def findTemplate (name : Bytes) : List Cmd → Autoescape → Option (Block × Autoescape)
  | [], _ => none
  | .namespace _ _ ae :: r, _ => findTemplate name r ae
  | .template _ n body ae _ :: r, nsAe =>
    if n == name then some (body, if ae != .unspecified then ae else nsAe) else findTemplate name r nsAe
  | _ :: r, nsAe => findTemplate name r nsAe

def sOutput : Bytes := b!"output"

section
variable [SoyVerif.Props.C04c.Globals]

/-- the callee oracle of Spec/JsStmt for the compiled files: Props/C04e `genCall` with the templates looked up in the
    files — the generated function `name` is `genBody`: the statements of the template's body (translated from a
    fresh scope; the names' counter does not matter to their meaning), run from `opt_data` = the data object and
    `output = ''`, return its output; `depth` bounds the nesting of calls -/
def calleeG (fs : List SoyFile) (fuel : Nat) : Nat → Callee
  | 0, _, _, _ => .unspec
  | depth + 1, name, .obj kvs, ij =>
    match fs.findSome? (fun f => findTemplate name f.body .unspecified) with
    | none => .unspec
    | some (body, ae) =>
      SoyVerif.Props.C04e.genBody libF fuel (calleeG fs fuel depth)
        { (default : Registry.Tmpl) with name := name, body := body, autoescape := ae, nsAutoescape := ae } kvs ij
  | _ + 1, _, _, _ => .unspec

/-- the functions of all files whose every template is in the fragment (Props/C04f `toFile`: the counter of
    generated names runs through each file) -/
def tableOf (fs : List SoyFile) : List JsFunc :=
  fs.flatMap fun f => match toFile f with
    | some r => r.1
    | none => []

end

def answer (r : JOut) (text : String) : String :=
  match r with
  | .val (.str out) => "OK " ++ Bytes.toHexWire out ++ " " ++ text
  | .val _ => "UNSPEC " ++ text
  | .error => "ERROR " ++ text
  | .unspec => "UNSPEC " ++ text

/-- the answer for a decoded request -/
def run (fs : List SoyFile) (fnm tn : Bytes) (optData : List (Bytes × JVal)) (ij : Option (List (Bytes × JVal)))
    (gs : List (Bytes × Value)) (fuel : Nat) : String :=
  letI : SoyVerif.Props.C04c.Globals := ⟨gs⟩
  match fs.find? (·.name == fnm) with
  | none => "NOFILE"
  | some file =>
    match toFile file with
    | some funcs =>
      -- FUNCTION level: every template of the file is in the fragment.  The text is that of ALL its functions
      -- (the file the generator writes ends with it); the entry function is CALLED through the table
      if (funcs.1.find? (·.name == tn)).isSome then
        answer (callFn libF (tableOf fs) fuel 9 tn (.obj optData) ij)
          (Bytes.toHexWire (printPieces (funcs.1.flatMap (renderFunc false 0))) ++ " F")
      else "NOTEMPLATE"
    | none =>
    match findTemplate tn file.body .unspecified with
    | none => "NOTEMPLATE"
    | some (.mk _ cmds, ae) =>
      match toCmds ae sOutput cmds ⟨[[]], 0⟩ with
      | none => "OUTSIDE"
      | some r =>
        let text := Bytes.toHexWire (printPieces (renderStmts false 1 r.1))
        match execStmts libF (calleeG fs fuel 8) fuel r.1 ⟨optData, ij, [(sOutput, .str [])]⟩ with
        | .ok e =>
          (match e.locals.find? (·.1 == sOutput) with
            | some (_, .str out) => "OK " ++ Bytes.toHexWire out ++ " " ++ text
            | _ => "UNSPEC " ++ text)
        | .error => "ERROR " ++ text
        | .unspec => "UNSPEC " ++ text

def decIj (s : String) : Option (Option (List (Bytes × JVal))) :=
  if s == "-" then some none
  else match (SExp.parse s).bind decJVal with
    | some (.obj kvs) => some (some kvs)
    | _ => none

def ops : List Op := [
  ("jssem", fun f => match f with
    | [_, files, fname, tname, dataS, fuelS] =>
      match Check.decFiles files, Bytes.ofHex fname, Bytes.ofHex tname, (SExp.parse dataS).bind decJVal, fuelS.toNat? with
      | some fs, some fnm, some tn, some (.obj optData), some fuel => run fs fnm tn optData none [] fuel
      | _, _, _, _, _ => "BADTREE"
    | [_, files, fname, tname, dataS, fuelS, ijS, globalsS] =>
      match Check.decFiles files, Bytes.ofHex fname, Bytes.ofHex tname, (SExp.parse dataS).bind decJVal, fuelS.toNat?,
        decIj ijS, Ops.JsGen.decGlobals globalsS with
      | some fs, some fnm, some tn, some (.obj optData), some fuel, some ij, some gs => run fs fnm tn optData ij gs fuel
      | _, _, _, _, _, _, _ => "BADTREE"
    | _ => "BADREQ")
]

end SoyVerif.Ops.JsSem
