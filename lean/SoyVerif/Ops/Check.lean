import SoyVerif.Ops.Common
import SoyVerif.Model.AstWire
import SoyVerif.Model.Registry

namespace SoyVerif.Ops.Check
open SoyVerif SoyVerif.Ops SoyVerif.Model

/-- `(files (file NAME cmds…) …)` -/
def decFiles (s : String) : Option (List SoyFile) :=
  match SExp.parse s with
  | some (SExp.list (SExp.atom "files" :: fs)) =>
    fs.mapM fun f => (AstWire.decFile f).map fun (n, cs) => { name := n, text := [], body := cs }
  | _ => none

def ops : List Op := [
  -- fields: sources (ignored by the model), parsed files
  ("check", fun f => match f with
    | [_, files] =>
      match decFiles files with
      | some fs =>
        match Registry.addAll [] fs with
        | none => "ERR"
        | some reg => if Check.check (Registry.toCheck reg) then "OK" else "ERR"
      | none => "BADTREE"
    | _ => "BADREQ")
]

end SoyVerif.Ops.Check
