import SoyVerif.Ops.Common
import SoyVerif.Model.AstWire
import SoyVerif.Model.Registry
import SoyVerif.Model.CheckErr

namespace SoyVerif.Ops.Check
open SoyVerif SoyVerif.Ops SoyVerif.Model

/-- `(files (file NAME cmds…) …)` -/
def decFiles (s : String) : Option (List SoyFile) :=
  match SExp.parse s with
  | some (SExp.list (SExp.atom "files" :: fs)) =>
    fs.mapM fun f => (AstWire.decFile f).map fun (n, cs) => { name := n, text := [], body := cs }
  | _ => none

def hexList (l : List Bytes) : String :=
  if l.isEmpty then "-" else ",".intercalate (l.map Bytes.toHexWire)

open SoyVerif.Model.CheckErr in
/-- canonical line of an error of CheckDataRefs: kind and payload -/
def showKind : ErrKind → String
  | .unusedParams ns => "unusedParams " ++ hexList ns
  | .headerParam => "headerParam"
  | .letIj => "letIj"
  | .callNotFound n => "callNotFound " ++ hexList [n]
  | .undeclaredParams ns => "undeclaredParams " ++ hexList ns
  | .missingRequired ns => "missingRequired " ++ hexList ns
  | .unusedLets ns => "unusedLets " ++ hexList ns
  | .dataRefNotFound k ps vs => "dataRefNotFound " ++ hexList [k] ++ " " ++ hexList ps ++ " " ++ hexList vs
  | .loopFuncArg fn => "loopFuncArg " ++ hexList [fn]

open SoyVerif.Model.CheckErr in
def showCompile : Except CompileErr Unit → String
  | .ok () => "OK"
  | .error (.reg .namespaceExpected) => "ERR reg namespaceExpected"
  | .error (.reg .namespaceRequired) => "ERR reg namespaceRequired"
  | .error (.reg .bothParams) => "ERR reg bothParams"
  | .error (.reg (.duplicate n)) => "ERR reg duplicate " ++ hexList [n]
  | .error (.reg .commandOutside) => "ERR reg commandOutside"
  | .error (.check e) => "ERR chk " ++ hexList [e.template] ++ " " ++ showKind e.kind

def ops : List Op := [
  -- the error CheckDataRefs / Registry.Add reports: kind and payload (names in the order Go builds them)
  ("checkerr", fun f => match f with
    | [_, files] =>
      match decFiles files with
      | some fs => showCompile (CheckErr.compileE fs)
      | none => "BADTREE"
    | _ => "BADREQ"),
  -- fields: sources (ignored by the model), parsed files
  ("check", fun f => match f with
    | [_, files] =>
      match decFiles files with
      | some fs =>
        match Registry.addAll [] fs with
        | none => "ERR"
        | some reg => if Check.check (Registry.toCheck reg) then "OK" else "ERR"
      | none => "BADTREE"
    | _ => "BADREQ")
]

end SoyVerif.Ops.Check
