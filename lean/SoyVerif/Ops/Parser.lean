import SoyVerif.Ops.Common
import SoyVerif.Model.AstWire
import SoyVerif.Model.Parser
import SoyVerif.Base.F64

namespace SoyVerif.Ops.Parser
open SoyVerif SoyVerif.Ops SoyVerif.Model

/-- `Typ:pos:hexval;Typ:pos:hexval;…` -/
def decItems (s : String) : Option (List Item) :=
  if s == "-" then some [] else
  (s.splitOn ";").mapM fun it =>
    match it.splitOn ":" with
    | [t, p, v] => do
      let typ ← ItemType.ofName t
      let pos ← p.toNat?
      let val ← Bytes.ofHex v
      pure { typ := typ, pos := pos, val := val }
    | _ => none

/-- strings.Count(input[:pos], "\n") + 1 -/
def lineNumber (input : Bytes) (pos : Nat) : Nat := 1 + ((input.take pos).filter (· == 10)).length

/-- columnNumber of lexer.go: pos - LastIndex(input[:pos], "\n"), with -1 replaced by 0 -/
def columnNumber (input : Bytes) (pos : Nat) : Nat :=
  let pre := input.take pos
  let idxs := (List.range pre.length).filter fun i => pre[i]? == some 10
  match idxs.getLast? with
  | some n => pos - n
  | none => pos

def perr (input : Bytes) : Parser.PErr → String
  | .err pos => s!"ERR {lineNumber input pos} {columnNumber input pos}"
  | .panic => "PANIC"
  | .fuelOut => "HANG"

/-- strconv.ParseFloat(s, 64) on a float token through the soft-float of Base/F64.lean:
    an overflow to ±Inf is a range error -/
def parseFloatStub (s : Bytes) : Option UInt64 :=
  let (neg, digits) := match s with
    | 45 :: r => (true, r)
    | 43 :: r => (false, r)
    | r => (false, r)
  match F64.parseDecimal digits with
  | some f => if f.isInf then none else some (if neg then (F64.neg f).bits else f.bits)
  | none => none

def ops : List Op := [
  ("parseexpr", fun f => match f with
    | [src, toks] =>
      match Bytes.ofHex src, decItems toks with
      | some input, some items =>
        match Parser.parseExprEntry parseFloatStub items with
        | .ok e => "OK " ++ (AstWire.encExpr e).toStr
        | .error e => perr input e
      | _, _ => "BADREQ"
    | _ => "BADREQ"),
  -- leak prediction for parse.Expr: fields = source, tokens
  ("leak", fun f => match f with
    | ["expr", _, toks] =>
      match decItems toks with
      | some items =>
        let o := Parser.exprEntry parseFloatStub items
        match o.result with
        | .error .panic => "PANIC"
        | .error .fuelOut => "HANG"
        | _ => if o.drained then "OK" else "LEAK"
      | none => "BADREQ"
    | _ => "BADREQ")
]

end SoyVerif.Ops.Parser
