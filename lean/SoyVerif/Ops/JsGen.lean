/-
  Protocol operations of the JavaScript generator model.

  jsgen  fields: sources (ignored by the model), compiled files `(files (file NAME cmds…) …)`,
         file name (hex), formatter es5|es6, messages `-` | `(msgs (ID part…) …)`,
         globals `(globals (NAME value) …)`, orders 1|3
         part  = (r TEXT) | (p NAME) | (pl VARNAME (c part…) …)
         value = (u) | (n) | (b 0|1) | (i INT) | (f BITS) | (s HEX) | (l value…) | (m (KEY value)…)
         answer: `OK <hex of the generated JavaScript>` | `ERR`;
         with orders = 3 the generator is run under three iteration orders of the Go maps
         (as stored, reversed, rotated) and the answer is `ORDER-DEPENDENT` unless they agree.
-/
import SoyVerif.Ops.Common
import SoyVerif.Ops.Check
import SoyVerif.Model.JsGen

namespace SoyVerif.Ops.JsGen
open SoyVerif SoyVerif.Ops SoyVerif.Model SoyVerif.Model.JsGen SExp

partial def decValue : SExp → Option Value
  | list [atom "u"] => some .undefined
  | list [atom "n"] => some .null
  | list [atom "b", b] => (asBool b).map .bool
  | list [atom "i", i] => (asInt i).map fun v => .int (Int64.ofInt v)
  | list [atom "f", b] => (asNat b).map fun n => .float ⟨UInt64.ofNat n⟩
  | list [atom "s", h] => (asBytes h).map .str
  | list (atom "l" :: xs) => (xs.mapM decValue).map (.list 2)
  | list (atom "m" :: kvs) =>
    (kvs.mapM fun kv => match kv with
      | list [k, v] => do pure ((← asBytes k), (← decValue v))
      | _ => none).map (.map 2)
  | _ => none

def decGlobals (s : String) : Option (List (Bytes × Value)) :=
  match SExp.parse s with
  | some (list (atom "globals" :: gs)) =>
    gs.mapM fun g => match g with
      | list [k, v] => do pure ((← asBytes k), (← decValue v))
      | _ => none
  | _ => none

mutual
  partial def decPart : SExp → Option MPart
    | list [atom "r", t] => (asBytes t).map .raw
    | list [atom "p", n] => (asBytes n).map .ph
    | list (atom "pl" :: vn :: cases) => do
      let v ← asBytes vn
      let cs ← cases.mapM fun c => match c with
        | list (atom "c" :: ps) => decParts ps
        | _ => none
      pure (.plural v (cs.foldr MCases.cons .nil))
    | _ => none
  partial def decParts (ps : List SExp) : Option MParts := do
    let l ← ps.mapM decPart
    pure (l.foldr MParts.cons .nil)
end

def decMsgs (s : String) : Option (Option (List (Nat × MParts))) :=
  if s == "-" then some none
  else match SExp.parse s with
    | some (list (atom "msgs" :: ms)) =>
      (ms.mapM fun m => match m with
        | list (id :: ps) => do pure ((← asNat id), (← decParts ps))
        | _ => none).map some
    | _ => none

def rotate (l : List Bytes) : List Bytes :=
  match l with
  | [] => []
  | x :: r => r ++ [x]

def answerOf : Except Unit Bytes → String
  | .ok b => okBytes b
  | .error _ => "ERR"

def ops : List Op := [
  ("jsgen", fun f => match f with
    | [_, files, name, fmt, msgs, globals, orders] =>
      match Check.decFiles files, Bytes.ofHex name, decMsgs msgs, decGlobals globals with
      | some fs, some n, some ms, some gs =>
        match fs.find? (·.name == n) with
        | none => "NOFILE"
        | some file =>
          let o : Options := { formatter := if fmt == "es6" then .es6 else .es5, messages := ms, globals := gs }
          let a := answerOf (gen id file o)
          if orders == "3" then
            let b := answerOf (gen List.reverse file o)
            let c := answerOf (gen rotate file o)
            if a == b && a == c then a else "ORDER-DEPENDENT"
          else a
      | _, _, _, _ => "BADTREE"
    | _ => "BADREQ")
]

end SoyVerif.Ops.JsGen
