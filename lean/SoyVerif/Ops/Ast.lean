import SoyVerif.Ops.Common
import SoyVerif.Model.AstWire
import SoyVerif.Model.Printer
import SoyVerif.Base.F64

namespace SoyVerif.Ops.Ast
open SoyVerif SoyVerif.Ops SoyVerif.Model

/-- decode helpers shared by the tree-consuming operations -/
def withExpr (s : String) (f : Expr → String) : String :=
  match SExp.parse s with
  | some sx => match AstWire.decExpr sx with
    | some e => f e
    | none => "BADTREE"
  | none => "BADSEXP"

def withCmd (s : String) (f : Cmd → String) : String :=
  match SExp.parse s with
  | some sx => match AstWire.decCmd sx with
    | some c => f c
    | none => "BADTREE"
  | none => "BADSEXP"

def withFile (s : String) (f : Bytes → List Cmd → String) : String :=
  match SExp.parse s with
  | some sx => match AstWire.decFile sx with
    | some (n, cs) => f n cs
    | none => "BADTREE"
  | none => "BADSEXP"

/-- strconv.FormatFloat(v,'g',-1,64) through the soft-float of Base/F64.lean -/
def fmtFloatStub (bits : UInt64) : Bytes := F64.format ⟨bits⟩

def ops : List Op := [
  ("exprstr", fun f => match f with
    | [_, s] => withExpr s fun e => okBytes (Printer.printExpr fmtFloatStub e)
    | _ => "BADREQ"),
  ("printcmd", fun f => match f with
    | [_, s] => withCmd s fun c => match c with
      | .print _ a ds => okBytes (Printer.printPrint fmtFloatStub a ds)
      | _ => "BADTREE"
    | _ => "BADREQ"),
  ("astecho", fun f => match f with
    | ["expr", s] => withExpr s fun e => "OK " ++ (AstWire.encExpr e).toStr
    | ["cmd", s] => withCmd s fun c => "OK " ++ (AstWire.encCmd c).toStr
    | ["file", s] => withFile s fun n cs => "OK " ++ (AstWire.encFile { name := n, text := [], body := cs }).toStr
    | _ => "BADREQ")
]

end SoyVerif.Ops.Ast
