/-
  Protocol operations of the interpreter model (Model/Eval.lean).

  exec      sources, files (S-expr of the real parser's trees), globals, template, data, ij, options
            -> OK <hex output> chunks=<n> | ERR <hex of the output written before the error> line=<n> file=<hex>
               (what the returned ErrFilePos reports; line=0 file=- for an error without a position) | PANIC | FUELOUT
  evalexpr  source (ignored), tree, globals -> OK <canonical value> | ERR
  setglobals sources (ignored), files, globals -> OK | ERR

  Values travel in the token encoding of Ops/Value.lean; `-` = no globals / empty map, `nil` = no $ij.
  Options: comma separated; `sortbytes` = the output bytes are compared as a multiset (used where the
  order of a Go map iteration reaches the output: keys()).
  `msgs=<bundle>`: a message bundle (see `decBundle`).
-/
import SoyVerif.Ops.Common
import SoyVerif.Ops.Check
import SoyVerif.Ops.Ast
import SoyVerif.Ops.Value
import SoyVerif.Model.Eval

namespace SoyVerif.Ops.Eval
open SoyVerif SoyVerif.Ops SoyVerif.Model SoyVerif.Model.Eval

def callFuel : Nat := 200

/-- `name:content` pairs, hex, comma separated (harness encSources) -/
def decSources (s : String) : Option (List (Bytes × Bytes)) :=
  if s == "-" then some []
  else (s.splitOn ",").mapM fun p =>
    match p.splitOn ":" with
    | [n, c] => do pure ((← Bytes.ofHex n), (← Bytes.ofHex c))
    | _ => none

/-- the parsed files with their source text attached -/
def decFilesWithText (sources files : String) : Option (List SoyFile) := do
  let fs ← Check.decFiles files
  let srcs ← decSources sources
  pure (fs.map fun f => match srcs.find? (fun s => s.1 == f.name) with
    | some (_, text) => { f with text := text }
    | none => f)

def decFrame (s : String) : Option Frame :=
  if s == "-" then some []
  else match Ops.Value.valueOfField s with
    | some (.map _ kvs) => some kvs
    | _ => none

def decIj (s : String) : Option (Option (Nat × Frame)) :=
  if s == "nil" then some none
  else match Ops.Value.valueOfField s with
    | some (.map id kvs) => some (some (id, kvs))
    | _ => none

/-! message bundles on the wire:  `pc=<a>.<b>;<id>=<parts>;<id>=<parts>…`
    PluralCase(n) = a if n = 1 else b;   parts: `r<hex>` raw text, `p<hex>` placeholder,
    `P<hexvar>(<parts>|<parts>|…)` plural with its cases; parts separated by `+`. -/

partial def decParts (cs : List Char) : Option (MParts × List Char) :=
  let rec token (cs : List Char) (acc : List Char) : List Char × List Char :=
    match cs with
    | c :: r => if c == '+' || c == '|' || c == ')' || c == '(' then (acc.reverse, cs) else token r (c :: acc)
    | [] => (acc.reverse, [])
  let rec cases (cs : List Char) : Option (MCases × List Char) :=
    match decParts cs with
    | some (ps, '|' :: r) => (cases r).map fun (c, r') => (.cons ps c, r')
    | some (ps, ')' :: r) => some (.cons ps .nil, r)
    | _ => none
  match cs with
  | [] => some (.nil, [])
  | '|' :: _ => some (.nil, cs)
  | ')' :: _ => some (.nil, cs)
  | '+' :: r => decParts r
  | 'r' :: r =>
    let (t, r') := token r []
    match Bytes.ofHex (String.ofList t) with
    | some b => (decParts r').map fun (ps, r'') => (.cons (.raw b) ps, r'')
    | none => none
  | 'p' :: r =>
    let (t, r') := token r []
    match Bytes.ofHex (String.ofList t) with
    | some b => (decParts r').map fun (ps, r'') => (.cons (.ph b) ps, r'')
    | none => none
  | 'P' :: r =>
    let (t, r') := token r []
    match Bytes.ofHex (String.ofList t), r' with
    | some b, '(' :: r'' =>
      match cases r'' with
      | some (cs', r3) => (decParts r3).map fun (ps, r4) => (.cons (.plural b cs') ps, r4)
      | none => none
    | _, _ => none
  | _ => none

def decBundle (s : String) : Option MsgBundle := do
  let items := s.splitOn ";"
  let mut pc : Int × Int := (0, 0)
  let mut msgs : List (Nat × MParts) := []
  for it in items do
    match it.splitOn "=" with
    | ["pc", v] =>
      match v.splitOn "." with
      | [a, b] => pc := ((← a.toInt?), (← b.toInt?))
      | _ => none
    | [id, parts] =>
      match decParts parts.toList with
      | some (ps, []) => msgs := (← id.toNat?, ps) :: msgs
      | _ => none
    | _ => none
  let table := msgs.reverse
  pure { message := fun id => (table.find? (·.1 == id)).map (·.2),
         pluralCase := fun n => if n == 1 then pc.1 else pc.2 }

structure Opts where
  sortBytes : Bool := false
  msgs : Option MsgBundle := none

def decOpts (s : String) : Option Opts := do
  let mut o : Opts := {}
  if s == "-" then return o
  for it in s.splitOn "," do
    if it == "sortbytes" then o := { o with sortBytes := true }
    else if it.startsWith "msgs=" then o := { o with msgs := some (← decBundle (it.drop 5).toString) }
    else none
  return o

def sortBytes (b : Bytes) : Bytes := (b.toArray.qsort (· < ·)).toList

def showOut (o : Opts) (b : Bytes) : String := Bytes.toHexWire (if o.sortBytes then sortBytes b else b)

def mkGEnv (reg : Registry.Reg) (globals : Frame) (ij : Option (Nat × Frame)) (o : Opts) : GEnv :=
  { reg := reg, globals := globals, ij := ij, msgs := o.msgs,
    tbl := Gen.directiveTable, oblig := Gen.obligatoryDirectives }

def answer (o : Opts) (r : Outcome) : String :=
  let bytes := r.chunks.flatten
  match r.cls with
  | .ok => "OK " ++ showOut o bytes ++ " chunks=" ++ toString r.chunks.length
  | .err => "ERR " ++ showOut o bytes ++ " line=" ++ toString r.line ++ " file=" ++ Bytes.toHexWire r.file
  | .panic => "PANIC"
  | .fuelOut => "FUELOUT"

def ops : List Op := [
  ("exec", fun f => match f with
    | [sources, files, globals, tmpl, data, ij, opts] =>
      match decFilesWithText sources files, decFrame globals, Bytes.ofHex tmpl, decFrame data, decIj ij, decOpts opts with
      | some fs, some gl, some name, some d, some ijv, some o =>
        match Registry.addAll [] fs with
        | none => "COMPILE-ERR"
        | some reg =>
          if !Check.check (Registry.toCheck reg) then "COMPILE-ERR"
          else if !setGlobals reg gl then "COMPILE-ERR"
          else answer o (execute (mkGEnv reg gl ijv o) name d callFuel)
      | _, _, _, _, _, _ => "BADREQ"
    | _ => "BADREQ"),
  ("evalexpr", fun f => match f with
    | [_, tree, globals, so] =>
      match decFrame globals with
      | some gl => Ops.Ast.withExpr tree fun e =>
        match evalExprEntry gl e with
        | some v =>
          let toks := Ops.Value.encValue (Ops.Value.canonical v)
          let toks := if so == "sorttokens" then (toks.toArray.qsort (· < ·)).toList else toks
          "OK " ++ Ops.Value.untokens toks
        | none => "ERR"
      | none => "BADREQ"
    | _ => "BADREQ"),
  -- fields: file text (hex); the trees of the expression texts in order, `;`-separated, `ERR` = rejected by the parser
  ("globals", fun f => match f with
    | [text, trees] =>
      match Bytes.ofHex text with
      | none => "BADREQ"
      | some input =>
        let ts : Option (List (Option Expr)) :=
          if trees == "-" then some []
          else (trees.splitOn ";").mapM fun t =>
            if t == "ERR" then some none
            else match SExp.parse t with
              | some sx => (AstWire.decExpr sx).map some
              | none => none
        match ts with
        | none => "BADTREE"
        | some ts =>
          match parseGlobals input ts with
          | none => "ERR"
          | some gl =>
            "OK " ++ ";".intercalate ((Model.Eval.sortByKey gl).map fun kv =>
              Bytes.toHexWire kv.1 ++ "=" ++ Ops.Value.untokens (Ops.Value.encValue (Ops.Value.canonical kv.2)))
    | _ => "BADREQ"),
  ("setglobals", fun f => match f with
    | [sources, files, globals] =>
      match decFilesWithText sources files, decFrame globals with
      | some fs, some gl =>
        match Registry.addAll [] fs with
        | none => "COMPILE-ERR"
        | some reg => if setGlobals reg gl then "OK" else "ERR"
      | _, _ => "BADREQ"
    | _ => "BADREQ")
]

end SoyVerif.Ops.Eval
