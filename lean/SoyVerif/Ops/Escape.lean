import SoyVerif.Ops.Common
import SoyVerif.Model.Escape
import SoyVerif.Model.Directives
import SoyVerif.Spec.Html
import SoyVerif.Spec.Percent
import SoyVerif.Spec.JsString
import SoyVerif.Model.JsEscape2

/-
  Protocol operations of the escaping / print-directive area (C03, C16):
    htmlesc  <hex>                         soyhtml.htmlEscapeString
    gohtmlesc <hex>                        text/template.HTMLEscapeString
    jsesc    <hex>                         text/template.JSEscapeString
    queryesc <hex>                         net/url.QueryEscape
    jsonstr  <hex>                         json.Marshal of a string
    dir      <name> <hex value> <arg>…     PrintDirectives[name].Apply(String(value), args)   (arg: decimal int | true | false)
    print    <nsmode> <tmplmode> <hex value> <name,arg,…>…    bytes written by evalPrint ("-" = attribute absent)
    spec-htmlunesc / spec-queryunesc <hex> the specification decoders
-/
namespace SoyVerif.Ops.Escape
open SoyVerif SoyVerif.Ops SoyVerif.Model SoyVerif.Model.Directives

def parseArg (s : String) : Option Arg :=
  if s == "true" then some (.bool true)
  else if s == "false" then some (.bool false)
  else (s.toInt?).map .int

def parseArgs : List String → Option (List Arg)
  | [] => some []
  | s :: r => do
    let a ← parseArg s
    let rest ← parseArgs r
    pure (a :: rest)

def parseMode (s : String) : Option Mode :=
  if s == "-" then some .unspecified
  else if s == "true" then some .on
  else if s == "false" then some .off
  else if s == "contextual" then some .contextual
  else none

def parseCall (s : String) : Option DirCall :=
  match s.splitOn "," with
  | [] => none
  | n :: as => (parseArgs as).map fun a => (Bytes.ofString n, a)

def parseCalls : List String → Option (List DirCall)
  | [] => some []
  | s :: r => do
    let a ← parseCall s
    let rest ← parseCalls r
    pure (a :: rest)

def resBytes : Res Bytes → String
  | .ok b => okBytes b
  | .err => "ERR"
  | .panic => "PANIC"
  | .unmodelled => "UNMODELLED"

def ops : List Op := [
  ("htmlesc", with1 fun b => okBytes (htmlEscape b)),
  ("gohtmlesc", with1 fun b => okBytes (htmlEscape b)),
  ("jsesc", with1 fun b => okBytes (jsEscape b)),
  ("jsesc2", with1 fun b => okBytes (jsEscapeFixed b)),
  ("jsrt2", with1 fun b => match Spec.jsUnescape (jsEscapeFixed b) with
    | some r => okBytes r
    | none => "ERR"),
  ("spec-jsunesc", with1 fun b => match Spec.jsUnescape b with
    | some r => okBytes r
    | none => "ERR"),
  ("queryesc", with1 fun b => okBytes (queryEscape b)),
  ("jsonstr", with1 fun b => okBytes (jsonString b)),
  ("spec-htmlunesc", with1 fun b => okBytes (Spec.htmlUnescape b)),
  ("spec-queryunesc", with1 fun b => match Spec.queryUnescape b with
    | some r => okBytes r
    | none => "ERR"),
  ("dir", fun f => match f with
    | name :: v :: as => match Bytes.ofHex v, parseArgs as with
      | some b, some args => resBytes (applyDirect Gen.directiveTable (Bytes.ofString name) b args)
      | _, _ => "BADREQ"
    | _ => "BADREQ"),
  ("print", fun f => match f with
    | ns :: tm :: v :: ds => match parseMode ns, parseMode tm, Bytes.ofHex v, parseCalls ds with
      | some ns, some tm, some b, some calls => resBytes (printBytes (effectiveMode ns tm) calls b)
      | _, _, _, _ => "BADREQ"
    | _ => "BADREQ")
]

end SoyVerif.Ops.Escape
