/-
  Model of template/registry.go `Registry.Add` and `Registry.Template`: the registry of
  compiled templates built from the parsed files, in insertion order.
-/
import SoyVerif.Model.Ast
import SoyVerif.Model.Check

namespace SoyVerif.Model.Registry
open SoyVerif SoyVerif.Model

/-- template.Template plus what Registry keeps about its source -/
structure Tmpl where
  name : Bytes
  params : List Check.Param      -- Doc.Params with the header params folded in
  body : Block                   -- Node.Body with the leading header params removed
  autoescape : Autoescape        -- Node.Autoescape
  nsName : Bytes
  nsAutoescape : Autoescape
  pos : Nat
  file : Bytes                   -- fileByTemplateName
  text : Bytes                   -- sourceByTemplateName
  deriving Inhabited

abbrev Reg := List Tmpl

/-- the namespace scan of `Add`: soydoc nodes are skipped, the first other node must be the namespace -/
def findNamespace : List Cmd → Option (Bytes × Autoescape)
  | [] => none
  | .soyDoc .. :: rest => findNamespace rest
  | .namespace _ n ae :: _ => some (n, ae)
  | _ => none

/-- `strings.Trim(text, " \t\r\n") == ""` -/
def isBlank (t : Bytes) : Bool := t.all fun b => b == 32 || b == 9 || b == 13 || b == 10

/-- leading `HeaderParamNode`s of a template body and the commands after the LAST of them; raw text that is
    blank between two of them is not template text (`{@param a: ?} {@param b: ?}` on one line), a blank after
    the last one stays -/
def splitHeaderParams : CmdList → List Check.Param × CmdList
  | .cons (.headerParam _ opt name _ _ _) rest =>
    let (ps, r) := splitHeaderParams rest
    ({ name := name, optional := opt } :: ps, r)
  | .cons (.rawText p txt) rest =>
    if isBlank txt then
      match splitHeaderParams rest with
      | ([], _) => ([], .cons (.rawText p txt) rest)
      | (ps, r) => (ps, r)
    else ([], .cons (.rawText p txt) rest)
  | cmds => ([], cmds)

/-- the template loop of `Add` over `soyfile.Body`; `prev` is `Body[i-1]` -/
def addTemplates (fileName text nsName : Bytes) (nsAe : Autoescape) :
    List Cmd → Option Cmd → Reg → Option Reg
  | [], _, reg => some reg
  | c :: rest, prev, reg =>
    match c with
    | .template pos name (.mk bpos cmds) ae _ =>
      let docParams : List Check.Param := match prev with
        | some (.soyDoc _ ps) => ps.map fun p => { name := p.name, optional := p.optional }
        | _ => []
      let (hps, body) := splitHeaderParams cmds
      if !hps.isEmpty && !docParams.isEmpty then none     -- both soydoc and header params
      else if reg.any (fun t => t.name == name) then none  -- defined more than once
      else
        let t : Tmpl := { name := name, params := docParams ++ hps, body := .mk bpos body, autoescape := ae,
                          nsName := nsName, nsAutoescape := nsAe, pos := pos, file := fileName, text := text }
        -- (the Go code appends the folded params to the shared SoyDocNode; a later template
        --  cannot see that node again, because `prev` is then the template itself)
        addTemplates fileName text nsName nsAe rest (some c) (reg ++ [t])
    -- outside the templates a file holds its namespace, doc comments and the text between them
    | .namespace .. | .soyDoc .. | .rawText .. => addTemplates fileName text nsName nsAe rest (some c) reg
    | _ => none                                             -- "command outside of a template"

/-- `Registry.Add(soyfile)`; `none` = it returns an error -/
def add (reg : Reg) (f : SoyFile) : Option Reg :=
  match findNamespace f.body with
  | none => none
  | some (ns, ae) => addTemplates f.name f.text ns ae f.body none reg

def addAll : Reg → List SoyFile → Option Reg
  | reg, [] => some reg
  | reg, f :: fs => (add reg f).bind fun r => addAll r fs

/-- `Registry.Template(name)`: the first template of that name -/
def lookup (reg : Reg) (name : Bytes) : Option Tmpl := reg.find? (fun t => t.name == name)

def toCheck (reg : Reg) : List Check.Template :=
  reg.map fun t => { name := t.name, params := t.params, body := t.body }

end SoyVerif.Model.Registry
