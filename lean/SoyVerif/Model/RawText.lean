/-
  Model of parse/rawtext.go `rawtext(s, trimBefore, trimAfter)`.

  The Go function decodes runes, but every test it performs on a rune compares it
  with an ASCII value (space, tab, CR, LF, '<', '>') or with `noChar` (= -1, "no character",
  the initial value of `lastChar` / `charBeforeTrim`; decoding never yields it).  A multi-byte rune or an
  invalid byte (RuneError, width 1) therefore always takes the "non-space,
  verbatim" path, whose effect is to copy bytes [lastpos,pos) unchanged.  The model
  works byte by byte; `lastChar` / `charBeforeTrim` hold the last byte of the last
  rune instead of the rune (`none` for `noChar`), which is in the same class ('<' / '>' / other)
  because bytes >= 0x80 are "other" just like runes >= 0x80.  (Until /repo 4eb5547 the mark for
  "no neighbour" was rune 0, so a NUL in the text counted like '<' and '>'.)  The correspondence
  check exercises multi-byte and invalid sequences to validate this abstraction.

  Index arithmetic is kept literal: the Go code copies `s[i]` for
  `i ∈ [lastpos - spaces, lastpos)` and writes `result[resultLen]` into a buffer of
  `len(s)` bytes; an out-of-range access is an explicit `none` (= Go panic), and
  `rawtext_no_panic` / `rawtext_in_bounds` are theorems.
-/
import SoyVerif.Base.Bytes

namespace SoyVerif.Model

def isSpace (b : UInt8) : Bool := b == 32 || b == 9
def isEndOfLine (b : UInt8) : Bool := b == 13 || b == 10
def isSpaceEOL (b : UInt8) : Bool := isSpace b || isEndOfLine b
/-- `isTightJoiner(r)` on a character of the text: '<' or '>' -/
def isTightJoiner (b : UInt8) : Bool := b == 60 || b == 62
/-- `isTightJoiner` on `lastChar` / `charBeforeTrim`: `none` is `noChar`, a tight joiner -/
def isTightJoinerO : Option UInt8 → Bool
  | none => true
  | some b => isTightJoiner b

/-- The Go loop `for i := lo; i < hi; i++ { … = s[i] }` with Go's bounds checks
    (`lo` may be negative): `none` = index out of range panic. -/
def copyRange (s : Bytes) (lo : Int) (hi : Nat) : Option Bytes :=
  if lo ≥ (hi : Int) then some []
  else if lo < 0 then none
  else if hi ≤ s.length then some ((s.drop lo.toNat).take (hi - lo.toNat))
  else none

/-- Appending to `result[:resultLen]`, a buffer of `cap` bytes: writing past it panics. -/
def pushOut (cap : Nat) (out add : Bytes) : Option Bytes :=
  if out.length + add.length ≤ cap then some (out ++ add) else none

structure RTState where
  spaces : Nat
  seenNewline : Bool
  lastChar : Option UInt8          -- `none` = noChar
  charBeforeTrim : Option UInt8
  out : Bytes            -- result[:resultLen]
  deriving Repr

/-- One iteration of the `for` loop for the byte `r` at index `lastpos`. -/
def rtStep (s : Bytes) (lastpos : Nat) (r : UInt8) (st : RTState) : Option RTState :=
  if st.spaces > 0 ∧ isSpace r then some { st with spaces := st.spaces + 1 }
  else if st.spaces > 0 ∧ isEndOfLine r then some { st with spaces := st.spaces + 1, seenNewline := true }
  else do
    -- done with scanning a set of space
    let st1 ← (if st.spaces > 0 then
        (if !st.seenNewline then do
            let run ← copyRange s ((lastpos : Int) - st.spaces) lastpos
            let out ← pushOut s.length st.out run
            pure { st with out := out, spaces := 0 }
         else if !isTightJoinerO st.charBeforeTrim && !isTightJoiner r then do
            let out ← pushOut s.length st.out [32]
            pure { st with out := out, spaces := 0 }
         else pure { st with spaces := 0 })
      else pure st : Option RTState)
    -- begin to trim
    let nl := isEndOfLine r
    if isSpace r || nl then
      pure { st1 with seenNewline := nl, spaces := 1, charBeforeTrim := st1.lastChar }
    else do
      let out ← pushOut s.length st1.out [r]
      pure { st1 with seenNewline := nl, out := out, lastChar := some r }

def rtLoop (s : Bytes) (trimAfter : Bool) : (rest : Bytes) → (pos : Nat) → RTState → Option Bytes
  | [], pos, st =>
      if !st.seenNewline && st.spaces > 0 && !trimAfter then do
        let run ← copyRange s ((pos : Int) - st.spaces) pos
        pushOut s.length st.out run
      else pure st.out
  | r :: rest, pos, st => do
      let st' ← rtStep s pos r st
      rtLoop s trimAfter rest (pos + 1) st'

def rtInit (trimBefore : Bool) : RTState :=
  { spaces := if trimBefore then 1 else 0, seenNewline := trimBefore,
    lastChar := none, charBeforeTrim := none, out := [] }

/-- `none` = the Go code would panic with an index out of range. -/
def rawtext (s : Bytes) (trimBefore trimAfter : Bool) : Option Bytes :=
  rtLoop s trimAfter s 0 (rtInit trimBefore)

end SoyVerif.Model
