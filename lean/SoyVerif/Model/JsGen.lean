/-
  Model of the JavaScript backend: /repo/soyjs/{exec.go,scope.go,funcs.go,directives.go,formatters.go}.
  `gen o f opts` mirrors `soyjs.Write(out, f, opts)` node by node.

  Conventions
  * OUTPUT.  Everything written to `s.wr` is a list of `Piece`s: a fixed fragment of the
    generator's own text, an `escaped` payload (printed through the JS string escaper), an
    identifier / dotted-name splice taken from the tree, a number, the definition line of a
    template, the file name inside the header comment.  `Piece.print` gives the bytes; `gen`
    returns the concatenation.  (Props/C14 states what each kind of splice may contain.)
  * MONAD.  `M α = St → Except Unit (α × List Piece × St)`: state, the pieces written, failure.
    A failure is the `panic` of `errorf` (or a runtime panic) that `errRecover` turns into the
    error `Write` returns; error texts are not modelled.
  * STATE (`St`) = the fields of soyjs.state other than `wr`/`options`: indentLevels, namespace (`ns`),
    bufferName, scope (frames innermost FIRST, and the counter `n`), autoescape, node/lastNode
    (only "is it a SoyDocNode, and its params" is ever looked at), funcsCalled (a Go map: an
    association list, assignment overwrites), funcsInFile.
  * `block(node)` runs the expression walker in a sub-state that shares scope / options /
    funcsCalled and returns the text: here the walker runs on the state itself and everything
    except `funcsCalled` is restored (an expression touches nothing else but `node`).
  * GO MAPS that are ranged over: the keys of a map literal and of `funcsCalled`.  Both loops are
    followed by `sort.Strings`; the iteration order is the explicit parameter `o` (any
    permutation), and the model sorts as the code does.
  * Recursion is structural.  Where the Go code looks a child up and then walks it (function
    arguments by index, map-literal items by key, the placeholder of a translated message by
    name) the model first builds the table of the children's walkers (closures over subterms)
    and then looks the walker up — same order of effects.
  * soyjs.Funcs / soyjs.PrintDirectives are the GENERATED tables of Gen/JsTables.lean (what each
    Func.Apply writes is recorded by running it on marker arguments).
  * A global's value is looked up in `Options.globals` — the map `parsepasses.SetGlobals`
    substituted into the `GlobalNode`s — and `walkValue` is `walk ∘ nodeFromValue` fused.
-/
import SoyVerif.Base.BLit
import SoyVerif.Base.F64
import SoyVerif.Base.Utf8
import SoyVerif.Model.Ast
import SoyVerif.Model.Value
import SoyVerif.Model.Printer
import SoyVerif.Model.JsEscape2
import SoyVerif.Gen.JsTables

namespace SoyVerif.Model.JsGen
open SoyVerif SoyVerif.Model

/-! ## output pieces -/

/-- the mapping visitSoyFile applies to the file name (soyjs 086971f): a line terminator — LF, CR, U+2028, U+2029 —
    becomes a space, so that the name stays inside the `//` comment -/
def commentRune (r : Nat) : Nat := if r == 10 || r == 13 || r == 0x2028 || r == 0x2029 then 32 else r

/-- `strings.Map(commentRune, name)`: the runes of the name as `range` yields them (a byte that is not UTF-8 is
    U+FFFD), each image written back as UTF-8.  (strings.Map returns the string itself when nothing changes and no
    byte is invalid — re-encoding a well-formed rune gives its bytes back, so that is the same string.) -/
def commentName (s : Bytes) : Bytes := (Utf8.runes s).flatMap fun r => Utf8.encodeRune (commentRune r)

/-- soyjs.ES6Identifier: every "." becomes "__" -/
def es6Identifier : Bytes → Bytes
  | [] => []
  | c :: r => if c == 46 then 95 :: 95 :: es6Identifier r else c :: es6Identifier r

inductive Piece where
  /-- text of the generator itself (including names taken from the Funcs / PrintDirectives tables) -/
  | fixed (b : Bytes)
  /-- a string that originates in the template; printed through the JS string escaper -/
  | escaped (s : Bytes)
  /-- an identifier taken from the tree (possibly with a generated suffix) -/
  | ident (b : Bytes)
  /-- a dotted name (namespace, template name) or a prefix of one -/
  | qname (b : Bytes)
  /-- ES6Identifier of a dotted name -/
  | es6name (b : Bytes)
  /-- an integer printed with strconv.FormatInt / %v -/
  | int (v : Int)
  /-- FloatNode.String() -/
  | float (bits : UInt64)
  /-- the line that defines the function of template `name` (Formatter.Template + parameter list) -/
  | header (es6 : Bool) (name : Bytes)
  /-- the file name in the first comment line -/
  | comment (b : Bytes)
  deriving Inhabited

def fmtFloat (bits : UInt64) : Bytes := Printer.fmtFloatLit (fun b => F64.format ⟨b⟩) bits

/-- the FloatNode case of `walk` (2b9928c): a float without a decimal spelling — it can only come from a global — is
    written as JavaScript names it; every other one as FloatNode.String -/
def jsFloat (bits : UInt64) : Bytes :=
  if (⟨bits⟩ : F64).isNaN then b!"NaN"
  else if (⟨bits⟩ : F64).isInf then (if (⟨bits⟩ : F64).sign then b!"-Infinity" else b!"Infinity")
  else fmtFloat bits

def sigTail : Bytes := b!"(opt_data, opt_sb, opt_ijData) {"

def Piece.print : Piece → Bytes
  | .fixed b => b
  | .escaped s => jsEscapeFixed s
  | .ident b => b
  | .qname b => b
  | .es6name b => es6Identifier b
  | .int v => F64.intDigits v
  | .float bits => jsFloat bits
  | .header false n => n ++ b!" = function" ++ sigTail
  | .header true n => b!"export function " ++ es6Identifier n ++ sigTail
  | .comment b => b

def printPieces (ps : List Piece) : Bytes := (ps.map Piece.print).flatten

/-! ## options -/

inductive Formatter where
  | es5 | es6
  deriving DecidableEq, Repr, Inhabited

mutual
  /-- soymsg.Part: RawTextPart, PlaceholderPart, PluralPart (only `Cases[i].Parts` is used) -/
  inductive MPart where
    | raw (t : Bytes)
    | ph (name : Bytes)
    | plural (varName : Bytes) (cases : MCases)
  inductive MParts where
    | nil
    | cons (p : MPart) (rest : MParts)
  inductive MCases where
    | nil
    | cons (parts : MParts) (rest : MCases)
end

structure Options where
  formatter : Formatter := .es5
  /-- Options.Messages: `none` = nil bundle; otherwise `Message(id)` as id ↦ Parts -/
  messages : Option (List (Nat × MParts)) := none
  /-- the globals map given to parsepasses.SetGlobals -/
  globals : List (Bytes × Value) := []

/-! ## scope.go -/

abbrev Frame := List (Bytes × Bytes)

def frameSet : Frame → Bytes → Bytes → Frame
  | [], k, v => [(k, v)]
  | (k', v') :: r, k, v => if k' == k then (k, v) :: r else (k', v') :: frameSet r k v

def frameGet? : Frame → Bytes → Option Bytes
  | [], _ => none
  | (k', v') :: r, k => if k' == k then some v' else frameGet? r k

structure Scope where
  /-- innermost frame first (the Go slice grows at the end) -/
  stack : List Frame
  n : Nat

namespace Scope

def push (s : Scope) : Scope := { s with stack := [] :: s.stack }
def pop (s : Scope) : Scope := { s with stack := s.stack.tail }

def setTop : List Frame → Bytes → Bytes → List Frame
  | [], _, _ => []
  | f :: r, k, v => frameSet f k v :: r

/-- jsname(varname, use, n) = varname + "$" + use + strconv.Itoa(n): "$" cannot occur in a Soy name, so
    generated names of different variables cannot collide -/
def jsname (varname use : Bytes) (n : Nat) : Bytes := varname ++ [36] ++ use ++ F64.natDigits n

def gen (varname : Bytes) (n : Nat) : Bytes := jsname varname [] n

def makevar (s : Scope) (varname : Bytes) : Bytes × Scope :=
  let n := s.n + 1
  (gen varname n, { stack := setTop s.stack varname (gen varname n), n := n })

def genname (s : Scope) (varname : Bytes) : Bytes × Scope :=
  (gen varname (s.n + 1), { s with n := s.n + 1 })

def bind (s : Scope) (varname genName : Bytes) : Scope :=
  { s with stack := setTop s.stack varname genName }

def lookupIn : List Frame → Bytes → Option Bytes
  | [], _ => none
  | f :: r, k => match frameGet? f k with
    | some v => some v
    | none => lookupIn r k

/-- `none` is the "" the Go code returns for an unbound name -/
def lookup (s : Scope) (k : Bytes) : Option Bytes := lookupIn s.stack k

/-- prefixes of the keys under which a loop's frame records the variables of the loop ("$" cannot occur in
    a Soy variable name).  scope.go keeps "$index:"+v and, under "$last:"+v, the TEXT of the test for the
    last iteration, composed when the loop is entered; the model keeps the NAMES this text is made of
    (limit, step, the loop variable's own local) and composes the pieces on demand (`looplast`): the
    frames are not observable otherwise. -/
def kLimit : Bytes := b!"$limit:"
def kIndex : Bytes := b!"$index:"
def kStep : Bytes := b!"$step:"
def kVar : Bytes := b!"$var:"

def pushForRange (s : Scope) (loopVar : Bytes) : (Bytes × Bytes × Bytes × Bytes) × Scope :=
  let n := s.n + 1
  let lv := jsname loopVar [] n
  let limit := jsname loopVar b!"Limit" n
  let step := jsname loopVar b!"Step" n
  let index := jsname loopVar b!"Index" n
  let f := frameSet (frameSet (frameSet (frameSet (frameSet [] loopVar lv) (kLimit ++ loopVar) limit) (kStep ++ loopVar) step)
    (kIndex ++ loopVar) index) (kVar ++ loopVar) lv
  ((lv, limit, step, index), { stack := f :: s.stack, n := n })

def pushForEach (s : Scope) (loopVar : Bytes) : (Bytes × Bytes × Bytes × Bytes) × Scope :=
  let n := s.n + 1
  let lv := jsname loopVar [] n
  let list := jsname loopVar b!"List" n
  let limit := jsname loopVar b!"Limit" n
  let index := jsname loopVar b!"Index" n
  let f := frameSet (frameSet (frameSet [] loopVar lv) (kLimit ++ loopVar) limit) (kIndex ++ loopVar) index
  ((lv, list, limit, index), { stack := f :: s.stack, n := n })

/-- the JS variable of the index of the (innermost) loop over `loopVar` -/
def loopindex (s : Scope) (loopVar : Bytes) : Option Bytes := s.lookup (kIndex ++ loopVar)

/-- the frame of the innermost loop over `loopVar` (the frame "$last:"+v is found in) -/
def loopFrame : List Frame → Bytes → Option Frame
  | [], _ => none
  | f :: r, v =>
    match frameGet? f (kIndex ++ v) with
    | some _ => some f
    | none => loopFrame r v

end Scope

/-! ## state and monad -/

/-- what `s.node` / `s.lastNode` are looked at for -/
inductive NodeTag where
  | soydoc (params : List SoyDocParam)
  | other
  deriving Inhabited

structure St where
  indent : Nat := 0
  ns : Bytes := []
  bufferName : Bytes := []
  scope : Scope := ⟨[], 0⟩
  autoescape : Autoescape := .unspecified
  node : NodeTag := .other
  lastNode : NodeTag := .other
  funcsCalled : List (Bytes × List Piece) := []
  funcsInFile : List Bytes := []

abbrev M (α : Type) := St → Except Unit (α × List Piece × St)

@[inline] def M.bind {α β : Type} (m : M α) (k : α → M β) : M β := fun s =>
  match m s with
  | .error e => .error e
  | .ok (a, ps, s1) =>
    match k a s1 with
    | .error e => .error e
    | .ok (b, qs, s2) => .ok (b, ps ++ qs, s2)

@[inline] def M.pure {α : Type} (a : α) : M α := fun s => .ok (a, [], s)

instance : Monad M where
  pure := M.pure
  bind := M.bind

/-- errorf / a runtime panic -/
def fail {α : Type} : M α := fun _ => .error ()

def emits (ps : List Piece) : M Unit := fun s => .ok ((), ps, s)
def emit (p : Piece) : M Unit := emits [p]
/-- s.js("…") -/
def fx (b : Bytes) : M Unit := emit (.fixed b)

def getSt : M St := fun s => .ok (s, [], s)
def modify (f : St → St) : M Unit := fun s => .ok ((), [], f s)

def spaces : Nat → Bytes
  | 0 => []
  | n + 1 => 32 :: 32 :: spaces n

/-- s.indent() -/
def indentP : M Unit := fun s => .ok ((), [.fixed (spaces s.indent)], s)
def nl : M Unit := fx [10]
def incIndent : M Unit := modify fun s => { s with indent := s.indent + 1 }
def decIndent : M Unit := modify fun s => { s with indent := s.indent - 1 }

/-- s.at(node) -/
def atNode (t : NodeTag) : M Unit := modify fun s => { s with lastNode := s.node, node := t }
def atOther : M Unit := atNode .other

def getBuf : M Bytes := fun s => .ok (s.bufferName, [], s)
def setBuf (b : Bytes) : M Unit := modify fun s => { s with bufferName := b }
def getScope : M Scope := fun s => .ok (s.scope, [], s)
def setScope (sc : Scope) : M Unit := modify fun s => { s with scope := sc }
def pushScope : M Unit := modify fun s => { s with scope := s.scope.push }
def popScope : M Unit := modify fun s => { s with scope := s.scope.pop }

def assocSet {β : Type} : List (Bytes × β) → Bytes → β → List (Bytes × β)
  | [], k, v => [(k, v)]
  | (k', v') :: r, k, v => if k' == k then (k, v) :: r else (k', v') :: assocSet r k v

def assocGet? {β : Type} : List (Bytes × β) → Bytes → Option β
  | [], _ => none
  | (k', v') :: r, k => if k' == k then some v' else assocGet? r k

/-- s.funcsCalled[k] = v -/
def addCalled (k : Bytes) (v : List Piece) : M Unit :=
  modify fun s => { s with funcsCalled := assocSet s.funcsCalled k v }

/-- s.funcsInFile[k] = true -/
def addInFile (k : Bytes) : M Unit :=
  modify fun s => { s with funcsInFile := if s.funcsInFile.contains k then s.funcsInFile else s.funcsInFile ++ [k] }

/-- run all, in order -/
def seqM : List (M Unit) → M Unit
  | [] => pure ()
  | m :: r => do m; seqM r

def whenM (c : Bool) (m : M Unit) : M Unit := if c then m else pure ()

/-- s.block(node): the text the walker writes, captured; only `funcsCalled` survives -/
def block (m : M Unit) : M (List Piece) := fun s =>
  match m s with
  | .error e => .error e
  | .ok (_, ps, s') => .ok (ps, [], { s with funcsCalled := s'.funcsCalled })

/-- s.writeRawText(text) -/
def writeRawText (text : Bytes) : M Unit := do
  indentP
  let b ← getBuf
  emit (.ident b); fx b!" += '"
  emit (.escaped text)
  fx b!"';\n"

/-- walk the child that was looked up; a missing child is a nil node / an index out of range -/
def orFail : Option (M Unit) → M Unit
  | some w => w
  | none => fail

/-- `name` as an identifier, or nothing for the "" of an unbound lookup -/
def identOrEmpty : Option Bytes → Piece
  | some g => .ident g
  | none => .fixed []

/-- scope.looplast(v): the test for the last iteration of the innermost loop over `v` — a range loop:
    `(v + step >= limit)`, a foreach: `(index == limit - 1)`; "" when `v` is no loop variable -/
def looplast (sc : Scope) (v : Bytes) : List Piece :=
  match Scope.loopFrame sc.stack v with
  | none => []
  | some f =>
    match frameGet? f (Scope.kStep ++ v) with
    | some step =>
      [.fixed b!"(", identOrEmpty (frameGet? f (Scope.kVar ++ v)), .fixed b!" + ", .ident step, .fixed b!" >= ",
        identOrEmpty (frameGet? f (Scope.kLimit ++ v)), .fixed b!")"]
    | none =>
      [.fixed b!"(", identOrEmpty (frameGet? f (Scope.kIndex ++ v)), .fixed b!" == ",
        identOrEmpty (frameGet? f (Scope.kLimit ++ v)), .fixed b!" - 1)"]

/-! ## literal values (visitGlobal ∘ nodeFromValue) -/

/-- the loop over the sorted keys of a map literal; `ws` = walker of `Items[k]` -/
def walkKeys (ws : List (Bytes × M Unit)) : List Bytes → Bool → M Unit
  | [], _ => pure ()
  | k :: r, first => do
    whenM (!first) (fx b!",")
    fx b!"\""
    emit (.escaped k)
    fx b!"\":"
    orFail (assocGet? ws k)
    walkKeys ws r false

section
-- `sk keys` = the keys after the range over the Go map and `sort.Strings`
variable (sk : List Bytes → List Bytes)

mutual
  def walkValue : Value → M Unit
    | .undefined => fail               -- "undefined value can not be converted to node"
    | .null => fx b!"null"
    | .bool b => fx (if b then b!"true" else b!"false")
    | .int i => emit (.int i.toInt)
    | .float f => emit (.float f.bits)
    | .str s => do fx b!"'"; emit (.escaped s); fx b!"'"
    | .list _ xs => do fx b!"["; walkValues xs true; fx b!"]"
    | .map _ kvs => do fx b!"{"; walkKeys (valueWalkers kvs) (sk (kvs.map (·.1))) true; fx b!"}"
  def walkValues : List Value → Bool → M Unit
    | [], _ => pure ()
    | v :: r, first => do
      whenM (!first) (fx b!",")
      walkValue v
      walkValues r false
  def valueWalkers : List (Bytes × Value) → List (Bytes × M Unit)
    | [] => []
    | (k, v) :: r => (k, walkValue v) :: valueWalkers r
end

/-! ## expressions -/

variable (o : Options)

def isEs6 : Bool := o.formatter == .es6

/-- the symbols `s.op` is called with -/
def jsOp : BinOp → Bytes
  | .mul => b!"*" | .div => b!"/" | .mod => b!"%" | .add => b!"+" | .sub => b!"-"
  | .eq => b!"==" | .ne => b!"!=" | .gt => b!">" | .ge => b!">=" | .lt => b!"<" | .le => b!"<="
  | .or => b!"||" | .and => b!"&&" | .elvis => b!"?:"

/-- "import { ES6Identifier(name) } from 'name.js';" for a name of the tables -/
def tableImport (name : Bytes) : List Piece :=
  [.fixed b!"import { ", .fixed (es6Identifier name), .fixed b!" } from '", .fixed name, .fixed b!".js';"]

/-- Formatter.Call(name) import string -/
def callImport (name : Bytes) : List Piece :=
  [.fixed b!"import { ", .es6name name, .fixed b!" } from '", .qname name, .fixed b!".js';"]

def findFunc (name : Bytes) : Option Gen.JsFunc := Gen.jsFuncs.find? (·.name == name)
def findDirective (name : Bytes) : Option Gen.JsDirective := Gen.jsDirectives.find? (·.name == name)

/-- Func.Apply(s, args): the recorded fragments; an argument index out of range is Go's
    index-out-of-range panic -/
def applyParts (ws : List (M Unit)) : List Gen.JsFnPart → M Unit
  | [] => pure ()
  | .text b :: r => do fx b; applyParts ws r
  | .arg i :: r => do
    orFail ws[i]?
    applyParts ws r

/-- fn.Apply(s, args) for the recorded behaviour at this number of arguments -/
def applyFn (ws : List (M Unit)) : Option (Option (List Gen.JsFnPart)) → M Unit
  | some (some parts) => applyParts ws parts
  | _ => fail

/-- loopVarOf: the loop variable isFirst / isLast / index refer to ("" unless the single argument
    is a data reference) -/
def loopVarOf : ExprList → Bytes
  | .cons (.dataRef _ key _) .nil => key
  | _ => []

/-- does any access of the data reference use `?.` / `?[` -/
def anyNullSafe : AccessList → Bool
  | .nil => false
  | .cons (.key _ ns _) r => ns || anyNullSafe r
  | .cons (.index _ ns _) r => ns || anyNullSafe r
  | .cons (.expr _ ns _) r => ns || anyNullSafe r

def mapKeys : MapItems → List Bytes
  | .nil => []
  | .cons k _ r => k :: mapKeys r

mutual
  /-- s.walk(node) for the expression nodes -/
  def walkExpr : Expr → M Unit
    | .null _ => do atOther; fx b!"null"
    | .bool _ b => do atOther; fx (if b then b!"true" else b!"false")
    | .int _ v => do atOther; emit (.int v)
    | .float _ bits => do atOther; emit (.float bits)
    | .str _ _ v => do atOther; fx b!"'"; emit (.escaped v); fx b!"'"
    | .global _ name => do
      atOther
      match assocGet? o.globals name with
      | some v => walkValue sk v
      | none => fail
    | .list _ items => do atOther; fx b!"["; walkItems items true; fx b!"]"
    | .map _ items => do
      atOther
      fx b!"{"
      walkKeys (mapWalkers items) (sk (mapKeys items)) true
      fx b!"}"
    | .func _ name args => do
      atOther
      match findFunc name with
      | some f => do
        applyFn (argWalkers args) f.emit[args.length]?
        whenM (isEs6 o) (addCalled name (tableImport f.fnName))
      | none =>
        if name == b!"isFirst" then do
          let sc ← getScope
          fx b!"("; emit (identOrEmpty (sc.loopindex (loopVarOf args))); fx b!" == 0)"
        else if name == b!"isLast" then do
          let sc ← getScope
          emits (looplast sc (loopVarOf args))
        else if name == b!"index" then do
          let sc ← getScope
          emit (identOrEmpty (sc.loopindex (loopVarOf args)))
        else fail
    | .dataRef _ key acc => do
      atOther
      let sc ← getScope
      let e0 : List Piece :=
        if key == b!"ij" then [.fixed b!"opt_ijData"]
        else match sc.lookup key with
          | some g => [.ident g]
          | none => [.fixed b!"opt_data.", .ident key]
      -- a null-safe reference is a conditional: it gets parentheses of its own
      whenM (anyNullSafe acc) (fx b!"(")
      visitAccess acc e0
      whenM (anyNullSafe acc) (fx b!")")
    | .not _ a => do atOther; fx b!"!("; walkExpr a; fx b!")"
    | .neg _ a => do atOther; fx b!"(- "; walkExpr a; fx b!")"
    | .bin op _ a b =>
      match op with
      | .elvis => do
        atOther
        fx b!"(("; walkExpr a; fx b!") != null ? "; walkExpr a; fx b!" : "; walkExpr b; fx b!")"
      | op => do
        atOther
        fx b!"(("; walkExpr a; fx b!") "; fx (jsOp op); fx b!" ("; walkExpr b; fx b!"))"
    | .tern _ c a b => do
      atOther
      fx b!"(("; walkExpr c; fx b!") ?"; walkExpr a; fx b!":"; walkExpr b; fx b!")"
  /-- items joined by "," -/
  def walkItems : ExprList → Bool → M Unit
    | .nil, _ => pure ()
    | .cons e r, first => do
      whenM (!first) (fx b!",")
      walkExpr e
      walkItems r false
  def argWalkers : ExprList → List (M Unit)
    | .nil => []
    | .cons e r => walkExpr e :: argWalkers r
  def mapWalkers : MapItems → List (Bytes × M Unit)
    | .nil => []
    | .cons k e r => (k, walkExpr e) :: mapWalkers r
  /-- the loop of visitDataRef; `expr` is the text accumulated so far -/
  def visitAccess : AccessList → List Piece → M Unit
    | .nil, expr => emits expr
    | .cons a r, expr =>
      match a with
      | .index _ ns i => do
        whenM ns (do fx b!"("; emits expr; fx b!" == null) ? null : ")
        visitAccess r (expr ++ [.fixed b!"[", .int i, .fixed b!"]"])
      | .key _ ns k => do
        whenM ns (do fx b!"("; emits expr; fx b!" == null) ? null : ")
        visitAccess r (expr ++ [.fixed b!".", .ident k])
      | .expr _ ns e => do
        whenM ns (do fx b!"("; emits expr; fx b!" == null) ? null : ")
        let ps ← block (walkExpr e)
        visitAccess r (expr ++ [.fixed b!"["] ++ ps ++ [.fixed b!"]"])
end

/-! ## print -/

def escapeHtmlName : Bytes := b!"escapeHtml"

/-- PrintDirectives[name].Name (the zero value "" for a missing key) -/
def directiveJsName (name : Bytes) : Bytes :=
  match findDirective name with
  | some d => d.jsName
  | none => []

/-- the first loop of visitPrint: `none` = unknown directive; otherwise (autoescape cancelled,
    directives kept) -/
def collectDirs : List Directive → Option (Bool × List Directive)
  | [] => some (false, [])
  | d :: r =>
    match findDirective d.name, collectDirs r with
    | some e, some (c, kept) =>
      some (e.cancel || c, if d.name == b!"id" || d.name == b!"noAutoescape" then kept else d :: kept)
    | _, _ => none

def escapeHtmlDir : Directive := { pos := 0, name := escapeHtmlName, args := [] }

/-- insertWordBreaks and changeNewlineToBr get their input escaped (the Go directives escape it themselves) -/
def withInputEscapes : List Directive → List Directive
  | [] => []
  | d :: r =>
    if d.name == b!"insertWordBreaks" || d.name == b!"changeNewlineToBr" then escapeHtmlDir :: d :: withInputEscapes r
    else d :: withInputEscapes r

/-- the directives applied, innermost (first applied) first: the implicit escapeHtml comes last unless
    autoescaping is off or cancelled -/
def printDirs (ae : Autoescape) (cancel : Bool) (kept : List Directive) : List Directive :=
  if (if cancel then Autoescape.off else ae) != .off then withInputEscapes kept ++ [escapeHtmlDir] else withInputEscapes kept

def closeDirective (d : Directive) : M Unit := do
  seqM (d.args.map fun a => do fx b!","; walkExpr sk o a)
  whenM (d.name == b!"truncate" && d.args.length == 1) (fx b!",true")
  fx b!")"

def visitPrint (arg : Expr) (dirs : List Directive) : M Unit := do
  let s ← getSt
  match collectDirs dirs with
  | none => fail
  | some (cancel, kept) => do
    whenM (isEs6 o) (seqM (kept.map fun d => addCalled d.name (tableImport (directiveJsName d.name))))
    let ds := printDirs s.autoescape cancel kept
    indentP
    emit (.ident s.bufferName); fx b!" += "
    seqM (ds.reverse.map fun d => do fx (directiveJsName d.name); fx b!"(")
    walkExpr sk o arg
    seqM (ds.map (closeDirective sk o))
    fx b!";\n"

/-! ## translated messages (evalMsgParts) -/

/-- ast.MsgNode.Placeholder(name): breadth-first, i.e. the first entry of least depth; the table
    lists the placeholders in document order with their depth in the node tree -/
def findPh (name : Bytes) : List (Nat × Bytes × M Unit) → Option (Nat × M Unit) → Option (M Unit)
  | [], best => best.map (·.2)
  | (d, n, w) :: r, best =>
    if n == name then
      match best with
      | some (bd, _) => if d < bd then findPh name r (some (d, w)) else findPh name r best
      | none => findPh name r (some (d, w))
    else findPh name r best

mutual
  def evalMsgParts (phs : List (Nat × Bytes × M Unit)) (pls : List (Bytes × Expr)) : MParts → M Unit
    | .nil => pure ()
    | .cons p r => do
      (match p with
        | .raw t => writeRawText t
        | .ph name => orFail (findPh name phs none)      -- "failed to find placeholder"
        | .plural vn cases =>
          match assocGet? pls vn with
          | none => fail                                  -- findPluralNode
          | some v => do
            indentP; fx b!"switch (soy.$$pluralIndex("; walkExpr sk o v; fx b!")) {"; nl
            incIndent
            evalCases phs pls cases 0
            decIndent
            indentP; fx b!"}"; nl)
      evalMsgParts phs pls r
  def evalCases (phs : List (Nat × Bytes × M Unit)) (pls : List (Bytes × Expr)) : MCases → Nat → M Unit
    | .nil, _ => pure ()
    | .cons parts rest, i => do
      indentP; fx b!"case "; emit (.int i); fx b!":"; nl
      incIndent
      evalMsgParts phs pls parts
      indentP; fx b!"break;"; nl
      decIndent
      evalCases phs pls rest (i + 1)
end

/-- the top-level plural nodes of a message body (findPluralNode looks no deeper) -/
def plTable : MsgParts → List (Bytes × Expr)
  | .nil => []
  | .text _ _ r => plTable r
  | .ph _ _ _ r => plTable r
  | .plural _ vn v _ _ _ r => (vn, v) :: plTable r

/-! ## commands -/

def isRangeCall : Expr → Option ExprList
  | .func _ name args => if name == b!"range" then some args else none
  | _ => none

/-- strings.Index(s, ".") -/
def indexOfDot : Bytes → Option Nat
  | [] => none
  | c :: r => if c == 46 then some 0 else (indexOfDot r).map (· + 1)

/-- Messages.Message(id) -/
def lookupMsg : List (Nat × MParts) → Nat → Option MParts
  | [], _ => none
  | (k, v) :: r, id => if k == id then some v else lookupMsg r id

def litInt (v : Int) : Expr := .int 0 v

/-- the `switch len(rangeNode.Args)` of visitForRange -/
def rangeIncr : ExprList → Expr
  | .cons _ (.cons _ (.cons c .nil)) => c
  | _ => litInt 1
def rangeInit : ExprList → Expr
  | .cons a (.cons _ .nil) => a
  | .cons a (.cons _ (.cons _ .nil)) => a
  | _ => litInt 0
def rangeLimit : ExprList → Option Expr
  | .cons a .nil => some a
  | .cons _ (.cons b .nil) => some b
  | .cons _ (.cons b (.cons _ .nil)) => some b
  | _ => none

/-- visitNamespace: one declaration per dot segment -/
def nsLoop (name : Bytes) : Nat → Nat → M Unit
  | 0, _ => pure ()
  | fuel + 1, i =>
    if i < name.length then do
      let prev := i + 1
      let i' := match indexOfDot (name.drop prev) with
        | none => name.length
        | some j => j + prev
      let pre := name.take i'
      indentP
      fx b!"if (typeof "; emit (.qname pre); fx b!" == 'undefined') { "
      fx (if pre.contains 46 then [] else b!"var ")
      emit (.qname pre); fx b!" = {}; }"; nl
      nsLoop name fuel i'
    else pure ()

def allOptional (t : NodeTag) : Bool :=
  match t with
  | .soydoc params => !params.isEmpty && params.all (·.optional)
  | .other => false

mutual
  /-- s.walk(node) for the command nodes -/
  def walkCmd : Cmd → M Unit
    | .rawText _ t => do atOther; writeRawText t
    | .print _ arg dirs => do atOther; visitPrint sk o arg dirs
    | .msg _ id _ _ _ body => do
      atOther
      pushScope
      (match o.messages with
        | none => visitMsgNode body
        | some bundle =>
          match lookupMsg bundle id with
          | none => visitMsgNode body
          | some parts => evalMsgParts sk o (phTable body 0) (plTable body) parts)
      popScope
    | .css _ e suffix => do
      atOther
      (match e with
        | some e => do
          indentP
          let b ← getBuf
          emit (.ident b); fx b!" += "; walkExpr sk o e; fx b!" + '-';"; nl
        | none => pure ())
      writeRawText suffix
    | .debugger _ => do atOther; indentP; fx b!"debugger;"; nl
    | .log _ body => do
      atOther
      let b ← getBuf
      setBuf (b ++ b!"_")
      indentP; fx b!"var "; emit (.ident (b ++ b!"_")); fx b!" = '';"; nl
      walkBlock body
      let b2 ← getBuf
      indentP; fx b!"console.log("; emit (.ident b2); fx b!");"; nl
      setBuf b2.dropLast
    | .ifc _ conds => do atOther; indentP; visitConds conds true; nl
    | .forc _ v list body ifEmpty => do
      atOther
      match isRangeCall list with
      | some args => do
        -- visitForRange
        let incr := rangeIncr args
        let init := rangeInit args
        let limit := rangeLimit args
        -- the arguments of range() are not in the scope of the loop variable
        let limitJs ← (match limit with
          | some l => block (walkExpr sk o l)
          | none => fail)                               -- s.block(nil): "unknown node"
        let initJs ← block (walkExpr sk o init)
        let incrJs ← block (walkExpr sk o incr)
        let sc ← getScope
        let varName := (sc.pushForRange v).1.1
        let varLimit := (sc.pushForRange v).1.2.1
        let varStep := (sc.pushForRange v).1.2.2.1
        let varIndex := (sc.pushForRange v).1.2.2.2
        setScope (sc.pushForRange v).2
        indentP; fx b!"var "; emit (.ident varLimit); fx b!" = "; emits limitJs; fx b!";"; nl
        indentP; fx b!"var "; emit (.ident varStep); fx b!" = "; emits incrJs; fx b!";"; nl
        -- isFirst / isLast / index count iterations, as they do in a foreach
        indentP; fx b!"for (var "; emit (.ident varName); fx b!" = "; emits initJs; fx b!", "
        emit (.ident varIndex); fx b!" = 0; "
        emit (.ident varName); fx b!" < "; emit (.ident varLimit); fx b!"; "
        emit (.ident varName); fx b!" += "; emit (.ident varStep); fx b!", "; emit (.ident varIndex); fx b!"++) {"; nl
        incIndent
        walkBody body
        decIndent
        indentP; fx b!"}"; nl
        popScope
        -- no iteration happened: the {ifempty} block, outside the loop variable's scope (2e1528d)
        (match ifEmpty with
          | some ie => do
            indentP; fx b!"if ("; emit (.ident varIndex); fx b!" == 0) {"; nl
            incIndent
            walkBlock ie
            decIndent
            indentP; fx b!"}"; nl
          | none => pure ())
      | none => do
        -- visitForeach: only the loop body is in the scope of the loop variable
        let listJs ← block (walkExpr sk o list)
        let sc ← getScope
        let itemData := (sc.pushForEach v).1.1
        let itemList := (sc.pushForEach v).1.2.1
        let itemListLen := (sc.pushForEach v).1.2.2.1
        let itemIndex := (sc.pushForEach v).1.2.2.2
        setScope (sc.pushForEach v).2
        indentP; fx b!"var "; emit (.ident itemList); fx b!" = "; emits listJs; fx b!";"; nl
        indentP; fx b!"var "; emit (.ident itemListLen); fx b!" = "; emit (.ident itemList); fx b!".length;"; nl
        whenM ifEmpty.isSome (do
          indentP; fx b!"if ("; emit (.ident itemListLen); fx b!" > 0) {"; nl
          incIndent)
        indentP; fx b!"for (var "; emit (.ident itemIndex); fx b!" = 0; "
        emit (.ident itemIndex); fx b!" < "; emit (.ident itemListLen); fx b!"; "
        emit (.ident itemIndex); fx b!"++) {"; nl
        incIndent
        indentP; fx b!"var "; emit (.ident itemData); fx b!" = "; emit (.ident itemList)
        fx b!"["; emit (.ident itemIndex); fx b!"];"; nl
        walkBody body
        decIndent
        indentP; fx b!"}"; nl
        popScope
        match ifEmpty with
        | some ie => do
          decIndent
          indentP; fx b!"} else {"; nl
          incIndent
          walkBlock ie
          decIndent
          indentP; fx b!"}"; nl
        | none => pure ()
    | .switch _ value cases => do
      atOther
      indentP; fx b!"switch ("; walkExpr sk o value; fx b!") {"; nl
      incIndent
      visitCases cases
      decIndent
      indentP; fx b!"}"; nl
    | .call _ name allData data params => do
      atOther
      let d0 : List Piece ←
        (match data with
          | some e => block (walkExpr sk o e)
          | none => pure (if allData then [.fixed b!"opt_data"] else [.fixed b!"{}"]))
      let dataExpr : List Piece ←
        (match params with
          | .nil => pure d0
          | ps => do
            let acc ← visitParams ps true ([.fixed b!"soy.$$augmentMap("] ++ d0 ++ [.fixed b!", {"])
            pure (acc ++ [.fixed b!"})"]))
      let b ← getBuf
      indentP
      emit (.ident b); fx b!" += "
      emit (if isEs6 o then .es6name name else .qname name)
      fx b!"("; emits dataExpr; fx b!", opt_sb, opt_ijData);"; nl
      whenM (isEs6 o) (addCalled (es6Identifier name) (callImport name))
    | .letValue _ name e => do
      atOther
      let value ← block (walkExpr sk o e)
      let sc ← getScope
      setScope (sc.makevar name).2
      indentP; fx b!"var "; emit (.ident (sc.makevar name).1); fx b!" = "; emits value; fx b!";"; nl
    | .letContent _ name body => do
      atOther
      let old ← getBuf
      let sc ← getScope
      setScope (sc.genname name).2
      setBuf (sc.genname name).1
      indentP; fx b!"var "; emit (.ident (sc.genname name).1); fx b!" = '';"; nl
      walkBlock body
      let cur ← getBuf
      let sc2 ← getScope
      setScope (sc2.bind name cur)
      setBuf old
    | .headerParam .. => do atOther; fail              -- "unknown node"
    | .namespace _ name ae => do
      atOther
      modify fun s => { s with ns := name, autoescape := ae }
      nsLoop name (name.length + 1) 0
    | .template _ name body ae _ => do
      atOther
      let s ← getSt
      let oldAutoescape := s.autoescape
      whenM (ae != .unspecified) (modify fun s => { s with autoescape := ae })
      let allOptionalParams := allOptional s.lastNode
      indentP; nl
      indentP; emit (.header (isEs6 o) name); nl
      addInFile (if isEs6 o then es6Identifier name else name)
      incIndent
      whenM allOptionalParams (do indentP; fx b!"opt_data = opt_data || {};"; nl)
      indentP; fx b!"var output = '';"; nl
      setBuf b!"output"
      pushScope
      walkBody body
      indentP; fx b!"return output;"; nl
      decIndent
      indentP; fx b!"};"; nl
      modify fun s => { s with autoescape := oldAutoescape }
      popScope
    | .soyDoc _ params => atNode (.soydoc params)
  /-- s.walkBlock(list node): a scope frame of its own -/
  def walkBlock : Block → M Unit
    | .mk _ cmds => do pushScope; atOther; walkCmds cmds; popScope
  /-- s.walk(list node) -/
  def walkBody : Block → M Unit
    | .mk _ cmds => do atOther; walkCmds cmds
  def walkCmds : CmdList → M Unit
    | .nil => pure ()
    | .cons c r => do walkCmd c; walkCmds r
  def visitConds : CondList → Bool → M Unit
    | .nil, _ => pure ()
    | .cons _ cond body rest, first => do
      whenM (!first) (fx b!" else ")
      (match cond with
        | some c => do fx b!"if ("; walkExpr sk o c; fx b!") "
        | none => pure ())
      fx b!"{\n"
      incIndent
      walkBlock body
      decIndent
      indentP
      fx b!"}"
      visitConds rest false
  def visitCases : CaseList → M Unit
    | .nil => pure ()
    | .cons _ values body rest => do
      seqM (values.map fun v => do indentP; fx b!"case "; walkExpr sk o v; fx b!":"; nl)
      whenM values.isEmpty (do indentP; fx b!"default:"; nl)
      incIndent
      walkBlock body
      indentP; fx b!"break;"; nl
      decIndent
      visitCases rest
  /-- the params loop of visitCall; the accumulated `dataExpr` is threaded -/
  def visitParams : ParamList → Bool → List Piece → M (List Piece)
    | .nil, _, acc => pure acc
    | .value _ key e rest, first, acc => do
      let v ← block (walkExpr sk o e)
      visitParams rest false (acc ++ (if first then [] else [.fixed b!", "]) ++ [.ident key, .fixed b!": "] ++ v)
    | .content _ key body rest, first, acc => do
      let old ← getBuf
      let sc ← getScope
      setScope (sc.genname b!"param").2
      setBuf (sc.genname b!"param").1
      indentP; fx b!"var "; emit (.ident (sc.genname b!"param").1); fx b!" = '';"; nl
      walkBlock body
      let cur ← getBuf
      setBuf old
      visitParams rest false (acc ++ (if first then [] else [.fixed b!", "]) ++ [.ident key, .fixed b!": ", .ident cur])
  /-- visitMsgNode -/
  def visitMsgNode : MsgParts → M Unit
    | .nil => pure ()
    | .text _ t r => do atOther; writeRawText t; visitMsgNode r
    | .ph _ _ body r => do walkPhBody body; visitMsgNode r
    | .plural _ _ value cases _ dflt r => do
      -- walkPlural
      indentP; fx b!"switch ("; walkExpr sk o value; fx b!") {"; nl
      incIndent
      walkPluralCases cases
      indentP; fx b!"default:"; nl
      incIndent
      visitMsgNode dflt
      decIndent
      decIndent
      indentP; fx b!"}"; nl
      visitMsgNode r
  def walkPluralCases : PluralCases → M Unit
    | .nil => pure ()
    | .cons _ v _ body rest => do
      indentP; fx b!"case "; emit (.int v); fx b!":"; nl
      incIndent
      visitMsgNode body
      indentP; fx b!"break;"; nl
      decIndent
      walkPluralCases rest
  /-- s.walk(placeholder.Body) -/
  def walkPhBody : MsgPhBody → M Unit
    | .htmlTag _ t => do atOther; writeRawText t
    | .cmd c => walkCmd c
  /-- the placeholders of a message body in document order, with their depth in the node tree
      (children of a plural node: value, case nodes, default list; a case node has one child, its
      body list) and the walker of their body -/
  def phTable : MsgParts → Nat → List (Nat × Bytes × M Unit)
    | .nil, _ => []
    | .text _ _ r, d => phTable r d
    | .ph _ name body r, d => (d, name, walkPhBody body) :: phTable r d
    | .plural _ _ _ cases _ dflt r, d => phCases cases (d + 3) ++ phTable dflt (d + 2) ++ phTable r d
  def phCases : PluralCases → Nat → List (Nat × Bytes × M Unit)
    | .nil, _ => []
    | .cons _ _ _ body rest, d => phTable body d ++ phCases rest d
end

/-- visitChildren of the file node -/
def walkTop : List Cmd → M Unit
  | [] => pure ()
  | c :: r => do walkCmd sk o c; walkTop r

def visitSoyFile (f : SoyFile) : M Unit := do
  atOther
  indentP; fx b!"// This file was automatically generated from "; emit (.comment (commentName f.name)); fx b!"."; nl
  indentP; fx b!"// Please don't edit this file by hand."; nl
  indentP; nl
  walkTop sk o f.body

end

/-! ## Write -/

/-- `difference(funcsCalled, funcsInFile)`: range over the map in the order `ord`, keep the keys
    not in the file, sort -/
def difference (ord : List Bytes → List Bytes) (called : List (Bytes × List Piece)) (inFile : List Bytes) : List Bytes :=
  Value.sortStrings ((ord (called.map (·.1))).filter fun k => !inFile.contains k)

def initState : St := { scope := ⟨[[]], 0⟩ }

/-- the import block: one line per called function that is not defined in the file, then a blank
    line — nothing at all when nothing was called -/
def importPieces (ord : List Bytes → List Bytes) (s : St) : List Piece :=
  if s.funcsCalled.isEmpty then []
  else (difference ord s.funcsCalled s.funcsInFile).flatMap (fun k =>
          (match assocGet? s.funcsCalled k with | some v => v | none => []) ++ [Piece.fixed [10]])
        ++ [Piece.fixed [10]]

/-- the pieces `soyjs.Write` writes for the file `f`: the import block, then the body -/
def genPieces (ord : List Bytes → List Bytes) (f : SoyFile) (o : Options) : Except Unit (List Piece) :=
  match visitSoyFile (fun l => Value.sortStrings (ord l)) o f initState with
  | .error e => .error e
  | .ok (_, body, s) => .ok (importPieces ord s ++ body)

/-- `soyjs.Write(out, f, opts)`: the bytes written, or the error -/
def gen (ord : List Bytes → List Bytes) (f : SoyFile) (o : Options) : Except Unit Bytes :=
  (genPieces ord f o).map printPieces

end SoyVerif.Model.JsGen
