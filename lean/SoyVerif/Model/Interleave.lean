/-
  Threads over one shared state, as a schedule-driven interleaving (property C09).

  A thread is a list of atomic steps `σ → σ × Obs` over the shared state σ (the compiled
  bundle: registry, trees, the caller's data / ij maps, the message bundle); each step
  may read the shared state, may produce an observation (bytes written to the thread's
  own writer) and returns the shared state it leaves behind.  A schedule is the list of
  thread ids in the order in which their next steps execute; every interleaving of the
  threads' steps is some schedule.
-/
namespace SoyVerif.Model.Interleave

abbrev Step (σ Obs : Type) := σ → σ × Obs

/-- thread `i` alone, from state `s` -/
def runSolo {σ Obs : Type} (s : σ) : List (Step σ Obs) → σ × List Obs
  | [] => (s, [])
  | f :: rest =>
    let (s1, o) := f s
    let (s2, os) := runSolo s1 rest
    (s2, o :: os)

structure Sys (σ Obs : Type) where
  shared : σ
  pending : List (List (Step σ Obs))   -- per thread: the steps not yet executed
  obs : List (List Obs)                -- per thread: observations so far (in order)

/-- execute the next step of thread `i` (a no-op if `i` is not a thread or has finished) -/
def stepThread {σ Obs : Type} (sys : Sys σ Obs) (i : Nat) : Sys σ Obs :=
  match sys.pending[i]? with
  | some (f :: rest) =>
    let (s', o) := f sys.shared
    { shared := s', pending := sys.pending.set i rest, obs := sys.obs.set i ((sys.obs.getD i []) ++ [o]) }
  | _ => sys

def runSched {σ Obs : Type} (sys : Sys σ Obs) : List Nat → Sys σ Obs
  | [] => sys
  | i :: rest => runSched (stepThread sys i) rest

def init {σ Obs : Type} (s : σ) (threads : List (List (Step σ Obs))) : Sys σ Obs :=
  { shared := s, pending := threads, obs := threads.map (fun _ => []) }

/-- a step that leaves the shared state as it found it (a pure reader) -/
def ReadOnly {σ Obs : Type} (s : σ) (f : Step σ Obs) : Prop := (f s).1 = s

end SoyVerif.Model.Interleave
