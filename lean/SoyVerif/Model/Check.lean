/-
  Model of parsepasses/datarefcheck.go (`CheckDataRefs`) on the registry that
  template/registry.go builds (`Registry.Add`: header params folded into the soydoc
  param list, soydoc/header exclusivity, duplicate template names).

  The walk mirrors `checkTemplate` / `recurse` / `leaveScope` / `visitKey` /
  `checkCall`, visiting children in the order of the `Children()` methods of
  ast/node.go.  `none` = the checker rejects (it panics with an error that
  `CheckDataRefs` recovers).
-/
import SoyVerif.Model.Ast

namespace SoyVerif.Model.Check
open SoyVerif SoyVerif.Model

structure Param where
  name : Bytes
  optional : Bool
  deriving Repr, DecidableEq, Inhabited

/-- template.Template as far as the checker looks at it -/
structure Template where
  name : Bytes
  params : List Param        -- Doc.Params (soydoc params, or the folded header params)
  body : Block
  deriving Inhabited

/-- a variable introduced by {let} or by a loop -/
structure Binding where
  name : Bytes
  isLet : Bool
  used : Bool
  deriving Repr, DecidableEq, Inhabited

structure CState where
  vars : List Binding        -- innermost LAST (as the Go slice)
  usedKeys : List Bytes
  deriving Repr, Inhabited

abbrev C := StateT CState Option

def reject {α : Type} : C α := fun _ => none

/-- `leaveScope(outer)`: every {let} declared since must have been used -/
def leaveScope (outer : Nat) : C Unit := do
  let st ← get
  if (st.vars.drop outer).any (fun v => v.isLet && !v.used) then reject
  else set { st with vars := st.vars.take outer }

/-- mark the innermost binding called `key` as used; `none` if there is none -/
def markUsed (key : Bytes) : List Binding → Option (List Binding)
  | [] => none
  | v :: rest =>
    match markUsed key rest with
    | some rest' => some (v :: rest')          -- an inner (later) binding takes precedence
    | none => if v.name == key then some ({ v with used := true } :: rest) else none

/-- `visitKey` -/
def visitKey (params : List Bytes) (key : Bytes) : C Unit := do
  if key == [105, 106] then pure ()          -- "ij"
  else
    let st ← get
    match markUsed key st.vars with
    | some vars' => set { st with vars := vars' }
    | none =>
      if params.contains key then set { st with usedKeys := st.usedKeys ++ [key] }
      else reject

/-- `checkLet` -/
def checkLet (name : Bytes) : C Unit :=
  if name == [105, 106] then reject else pure ()

def declare (name : Bytes) (isLet : Bool) : C Unit :=
  modify fun st => { st with vars := st.vars ++ [{ name := name, isLet := isLet, used := false }] }

/-- `index`, `isFirst`, `isLast`: the functions that speak about a loop -/
def loopFn (name : Bytes) : Bool :=
  name == [105, 110, 100, 101, 120] || name == [105, 115, 70, 105, 114, 115, 116]
    || name == [105, 115, 76, 97, 115, 116]

/-- what a loop function is applied to: `some x` when there is exactly one argument and it is the
    plain reference `$x` (a DataRefNode with no access) -/
def loopArg : ExprList → Option Bytes
  | .cons (.dataRef _ key .nil) .nil => some key
  | _ => none

/-- some binding of that name is a loop variable (a {let} of the same name does not matter) -/
def isLoopVar (vars : List Binding) (key : Bytes) : Bool :=
  vars.any fun v => v.name == key && !v.isLet

/-- `checkLoopFunc` (called for the loop functions only) -/
def checkLoopFunc (args : ExprList) : C Unit := do
  match loopArg args with
  | none => reject
  | some key =>
    let st ← get
    if isLoopVar st.vars key then pure () else reject

section
variable (reg : List Template) (params : List Bytes)

/-- `checkCall` (everything but the recursion into the children) -/
def checkCall (name : Bytes) (allData : Bool) (hasData : Bool) (paramKeys : List Bytes) : C Unit := do
  match reg.find? (fun t => t.name == name) with
  | none => reject
  | some callee =>
    let allCallee := callee.params.map (·.name)
    let required := (callee.params.filter (fun p => !p.optional)).map (·.name)
    -- data="all": the caller's params that the callee declares count as used and as passed
    let passedByAll := if allData then params.filter (fun p => allCallee.contains p) else []
    modify fun st => { st with usedKeys := st.usedKeys ++ passedByAll }
    let callerParamNames := passedByAll ++ paramKeys
    if callerParamNames.any (fun k => !allCallee.contains k) then reject
    else if hasData then pure ()
    else if required.any (fun r => !callerParamNames.contains r) then reject
    else pure ()

mutual
  def checkExpr : Expr → C Unit
    | .dataRef _ key acc => do
      visitKey params key
      let st ← get
      let outer := st.vars.length
      checkAccesses acc
      leaveScope outer
    | .func _ name args => do
      (if loopFn name then checkLoopFunc args else pure ())
      checkExprs args
    | .list _ items => checkExprs items
    | .map _ items => checkMapItems items
    | .not _ a => checkExpr a
    | .neg _ a => checkExpr a
    | .bin _ _ a b => do checkExpr a; checkExpr b
    | .tern _ c a b => do checkExpr c; checkExpr a; checkExpr b
    | _ => pure ()
  def checkExprs : ExprList → C Unit
    | .nil => pure ()
    | .cons e r => do checkExpr e; checkExprs r
  def checkMapItems : MapItems → C Unit
    | .nil => pure ()
    | .cons _ e r => do checkExpr e; checkMapItems r
  def checkAccesses : AccessList → C Unit
    | .nil => pure ()
    | .cons a r => do
      (match a with
       | .expr _ _ e => checkExpr e
       | _ => pure ())
      checkAccesses r
end

def checkOptExpr : Option Expr → C Unit
  | none => pure ()
  | some e => checkExpr params e

def checkExprList : List Expr → C Unit
  | [] => pure ()
  | e :: r => do checkExpr params e; checkExprList r

/-- run `body` as the children of a ParentNode: variables declared inside go out of scope after it -/
def inScope (body : C Unit) : C Unit := do
  let st ← get
  let outer := st.vars.length
  body
  leaveScope outer

def paramKeys : ParamList → List Bytes
  | .nil => []
  | .value _ k _ r => k :: paramKeys r
  | .content _ k _ r => k :: paramKeys r

mutual
  /-- `checkTemplate(node)` for a command -/
  def checkCmd : Cmd → C Unit
    | .rawText .. => pure ()
    | .debugger .. => pure ()
    | .print _ a dirs => inScope (do
        checkExpr params a
        checkDirs dirs)
    | .msg _ _ _ _ _ body => inScope (checkParts body)
    | .css _ e _ => inScope (checkOptExpr params e)
    | .log _ b => inScope (checkBlock b)
    | .ifc _ conds => inScope (checkConds conds)
    | .forc _ v l b ie => do
      checkExpr params l
      let st ← get
      let outer := st.vars.length
      declare v false
      checkBlock b
      leaveScope outer
      (match ie with
       | some b' => checkBlock b'
       | none => pure ())
    | .switch _ v cases => inScope (do
        checkExpr params v
        checkCases cases)
    | .call _ name allData d ps => do
      checkCall reg params name allData d.isSome (paramKeys ps)
      inScope (do
        checkOptExpr params d
        checkParams ps)
    | .letValue _ name e => do
      checkLet name
      inScope (checkExpr params e)
      declare name true
    | .letContent _ name b => do
      checkLet name
      inScope (checkBlock b)
      declare name true
    | .headerParam .. => reject
    | .namespace .. => pure ()
    | .template _ _ b _ _ => inScope (checkBlock b)
    | .soyDoc .. => pure ()
  /-- a ListNode: a ParentNode of its own -/
  def checkBlock : Block → C Unit
    | .mk _ cmds => do
      let st ← get
      let outer := st.vars.length
      checkCmds cmds
      leaveScope outer
  def checkCmds : CmdList → C Unit
    | .nil => pure ()
    | .cons c r => do checkCmd c; checkCmds r
  def checkDirs : List Directive → C Unit
    | [] => pure ()
    | d :: r => do
      inScope (checkExprList params d.args)
      checkDirs r
  /-- IfCondNode children: Cond, Body -/
  def checkConds : CondList → C Unit
    | .nil => pure ()
    | .cons _ c b r => do
      inScope (do
        checkOptExpr params c
        checkBlock b)
      checkConds r
  /-- SwitchCaseNode children: Body first, then the values -/
  def checkCases : CaseList → C Unit
    | .nil => pure ()
    | .cons _ vs b r => do
      inScope (do
        checkBlock b
        checkExprList params vs)
      checkCases r
  def checkParams : ParamList → C Unit
    | .nil => pure ()
    | .value _ _ e r => do
      inScope (checkExpr params e)
      checkParams r
    | .content _ _ b r => do
      inScope (checkBlock b)
      checkParams r
  /-- MsgNode.Children() = the children of its body -/
  def checkParts : MsgParts → C Unit
    | .nil => pure ()
    | .text _ _ r => checkParts r
    | .ph _ _ body r => do
      inScope (match body with
        | .htmlTag .. => pure ()
        | .cmd c => checkCmd c)
      checkParts r
    | .plural _ _ v cases _ d r => do
      inScope (do
        checkExpr params v
        checkPlCases cases
        inScope (checkParts d))
      checkParts r
  def checkPlCases : PluralCases → C Unit
    | .nil => pure ()
    | .cons _ _ _ b r => do
      inScope (inScope (checkParts b))
      checkPlCases r
end

end

/-- the loop body of `CheckDataRefs` for one template -/
def checkOne (reg : List Template) (t : Template) : Bool :=
  let params := t.params.map (·.name)
  -- tc.checkTemplate(t.Node): the TemplateNode is a ParentNode with the body as its only child
  match (inScope (checkBlock reg params t.body)).run { vars := [], usedKeys := [] } with
  | none => false
  | some (_, st) => params.all (fun p => st.usedKeys.contains p)

/-- `CheckDataRefs(registry)` accepts -/
def check (reg : List Template) : Bool := reg.all (checkOne reg)

end SoyVerif.Model.Check
