/-
  Model of the `String()` methods of the expression nodes and of the print command
  in ast/node.go (the source text soy prints for a tree).

  Float formatting (`strconv.FormatFloat(v,'g',-1,64)`) is a parameter `ff`; the
  driver instantiates it with the soft-float implementation of Base/F64.lean.
-/
import SoyVerif.Model.Ast

namespace SoyVerif.Model.Printer
open SoyVerif SoyVerif.Model

/-- digits of `n`, most significant first, in front of `acc` (the fuel bounds the number of digits) -/
def natDigitsAux : Nat → Nat → Bytes → Bytes
  | 0, _, acc => acc
  | fuel + 1, n, acc =>
    if n < 10 then UInt8.ofNat (48 + n) :: acc
    else natDigitsAux fuel (n / 10) (UInt8.ofNat (48 + n % 10) :: acc)

/-- decimal digits of a natural number (`0` ↦ "0"); structural on a fuel so that the kernel
    can compute it and `Lemmas/ParserLit.lean` can prove that `parseInt10` reads it back
    (extensionally `(toString n).toUTF8.toList`; tied by the C17 correspondence) -/
def natDigits (n : Nat) : Bytes := natDigitsAux (n + 1) n []

/-- strconv.FormatInt(v, 10) / strconv.Itoa -/
def fmtInt (v : Int) : Bytes :=
  if v < 0 then 45 :: natDigits v.natAbs else natDigits v.natAbs

-- precedence levels of ast/node.go (precTernary = -1 … precPrimary = 8), shifted by one to stay in Nat;
-- `?:` is on the lowest binary level, associates to the RIGHT and takes a ternary as right operand (`leftMin` / `rightMin`)
def precTernary : Nat := 0
def precElvis : Nat := 1
def precOr : Nat := 2
def precAnd : Nat := 3
def precEquality : Nat := 4
def precCompare : Nat := 5
def precAdd : Nat := 6
def precMul : Nat := 7
def precUnary : Nat := 8
def precPrimary : Nat := 9

def binPrec : BinOp → Nat
  | .elvis => precElvis
  | .or => precOr
  | .and => precAnd
  | .eq | .ne => precEquality
  | .lt | .le | .gt | .ge => precCompare
  | .add | .sub => precAdd
  | .mul | .div | .mod => precMul

/-- BinaryOpNode.String: the precedence the LEFT operand must have to stand without parentheses — `?:` associates to the
    right, so another `?:` (or a ternary) on its left is parenthesised -/
def leftMin (op : BinOp) : Nat :=
  match op with
  | .elvis => precElvis + 1
  | op => binPrec op

/-- … and the RIGHT operand: at equal precedence already parenthesised (left-associative operators); the right operand of
    `?:` is printed as it is (it extends as far as possible) -/
def rightMin (op : BinOp) : Nat :=
  match op with
  | .elvis => 0
  | op => binPrec op + 1

def precedenceOf : Expr → Nat
  | .tern .. => precTernary
  | .not .. | .neg .. => precUnary
  | .bin op .. => binPrec op
  | _ => precPrimary

/-- one byte of ast.quoteString: the escapes, every other byte is copied -/
def quoteByte (b : UInt8) : Bytes :=
  if b == 92 then [92, 92]          -- \\
  else if b == 39 then [92, 39]     -- '
  else if b == 10 then [92, 110]
  else if b == 13 then [92, 114]
  else if b == 9 then [92, 116]
  else if b == 8 then [92, 98]
  else if b == 12 then [92, 102]
  else [b]

/-- ast.quoteString: a Soy string literal for `s`, byte by byte (`for i := 0; i < len(s); i++`) -/
def quoteString (s : Bytes) : Bytes := [39] ++ s.flatMap quoteByte ++ [39]

section
variable (ff : UInt64 → Bytes)

/-- FloatNode.String: 'g' format, with ".0" appended when the text would read as an int -/
def fmtFloatLit (bits : UInt64) : Bytes :=
  let s := ff bits
  if s.any (fun c => c == 46 || c == 101 || c == 73 || c == 78) then s else s ++ [46, 48]

/-- operandString: parenthesise the text `s` of `e` if `e` binds less tightly than `minPrec` -/
def wrapOperand (e : Expr) (minPrec : Nat) (s : Bytes) : Bytes :=
  if precedenceOf e < minPrec then [40] ++ s ++ [41] else s

mutual
  def printExpr : Expr → Bytes
    | .null _ => [110, 117, 108, 108]
    | .bool _ b => if b then [116, 114, 117, 101] else [102, 97, 108, 115, 101]
    | .int _ v => fmtInt v
    | .float _ bits => fmtFloatLit ff bits
    | .str _ q _ => q
    | .global _ n => n
    | .func _ n args => n ++ [40] ++ printArgs args true ++ [41]
    | .list _ items => [91] ++ printItems items true ++ [93]
    | .map _ items =>
        match items with
        | .nil => [91, 58, 93]
        | _ => [91] ++ printMapEntries items true ++ [93]
    | .dataRef _ k acc => [36] ++ k ++ printAccesses acc
    | .not _ a => [110, 111, 116, 32] ++ wrapOperand a precUnary (printExpr a)
    | .neg _ a =>
        match a with
        | .int .. => [45, 40] ++ printExpr a ++ [41]
        | .float .. => [45, 40] ++ printExpr a ++ [41]
        | _ => [45] ++ wrapOperand a precUnary (printExpr a)
    | .bin op _ a b =>
        wrapOperand a (leftMin op) (printExpr a) ++ [32] ++ op.sym ++ [32] ++ wrapOperand b (rightMin op) (printExpr b)
    | .tern _ c a b =>
        wrapOperand c (precElvis + 1) (printExpr c) ++ [32, 63, 32] ++ wrapOperand a precElvis (printExpr a) ++ [32, 58, 32] ++ printExpr b
  /-- function arguments joined by "," -/
  def printArgs : ExprList → Bool → Bytes
    | .nil, _ => []
    | .cons e r, first => (if first then [] else [44]) ++ printExpr e ++ printArgs r false
  /-- list items joined by ", " -/
  def printItems : ExprList → Bool → Bytes
    | .nil, _ => []
    | .cons e r, first => (if first then [] else [44, 32]) ++ printExpr e ++ printItems r false
  /-- entries `'k': v` of MapLiteralNode.String joined by ", " (the Go code sorts the keys;
      the driver sorts the association list before printing) -/
  def printMapEntries : MapItems → Bool → Bytes
    | .nil, _ => []
    | .cons k e r, first =>
        (if first then [] else [44, 32]) ++ quoteString k ++ [58, 32] ++ printExpr e ++ printMapEntries r false
  def printAccesses : AccessList → Bytes
    | .nil => []
    | .cons a r => printAccess a ++ printAccesses r
  def printAccess : Access → Bytes
    | .key _ ns k => (if ns then [63, 46] else [46]) ++ k
    | .index _ ns i => (if ns then [63, 46] else [46]) ++ fmtInt i
    | .expr _ ns e => (if ns then [63, 91] else [91]) ++ printExpr e ++ [93]
end

/-- PrintDirectiveNode.String -/
def printDirective (d : Directive) : Bytes :=
  match d.args with
  | [] => [124] ++ d.name
  | args => [124] ++ d.name ++ [58] ++ ((args.map (printExpr ff)).intersperse [44]).flatten

/-- PrintNode.String -/
def printPrint (arg : Expr) (dirs : List Directive) : Bytes :=
  [123] ++ printExpr ff arg ++ (dirs.map (printDirective ff)).flatten ++ [125]

end
end SoyVerif.Model.Printer
