/-
  Model of parse/quote.go `unquoteString` (Soy string literal → string value).
  `none` = the function returns an error.
-/
import SoyVerif.Base.Utf8

namespace SoyVerif.Model.Quote
open SoyVerif

/-- the `unescapes` table of quote.go: escape letter → rune -/
def unescape (r : Nat) : Option Nat :=
  if r == 92 then some 92          -- \\
  else if r == 39 then some 39     -- \'
  else if r == 110 then some 10    -- n
  else if r == 114 then some 13    -- r
  else if r == 116 then some 9     -- t
  else if r == 98 then some 8      -- b
  else if r == 102 then some 12    -- f
  else none

def hexDigitVal (b : UInt8) : Option Nat :=
  let x := b.toNat
  if 48 ≤ x && x ≤ 57 then some (x - 48)
  else if 97 ≤ x && x ≤ 102 then some (x - 87)
  else if 65 ≤ x && x ≤ 70 then some (x - 55)
  else none

def hexDigits : Bytes → Option Nat
  | [] => none
  | ds => ds.foldlM (fun acc d => (hexDigitVal d).map (acc * 16 + ·)) 0

/-- strconv.ParseInt(s, 16, 0) on a 4-byte string: optional sign, then at least one hex digit -/
def parseHex4 (s : Bytes) : Option Int :=
  match s with
  | 43 :: ds => (hexDigits ds).map Int.ofNat
  | 45 :: ds => (hexDigits ds).map (fun n => - Int.ofNat n)
  | ds => (hexDigits ds).map Int.ofNat

/-- after `\uXXXX` = n: a high surrogate followed by an escaped low surrogate (`\u` + four hex digits,
    strconv.ParseUint: no sign) is one character beyond the basic plane (utf16.DecodeRune); anything else
    leaves the escape on its own -/
def surrogatePair (n : Int) (rest : Bytes) : Int × Bytes :=
  if 0xD800 ≤ n && n < 0xE000 && 6 ≤ rest.length && rest.take 2 == [92, 117] then
    match hexDigits ((rest.drop 2).take 4) with
    | some low =>
      if 0xD800 ≤ n && n < 0xDC00 && 0xDC00 ≤ low && low < 0xE000 then
        ((n - 0xD800) * 1024 + (Int.ofNat low - 0xDC00) + 0x10000, rest.drop 6)
      else (n, rest)
    | none => (n, rest)
  else (n, rest)

/-- the decoding loop; `fuel` bounds the iterations by the input length.  A byte that is not
    valid UTF-8 (RuneError of width 1) outside an escape is copied as it is, like the fast path. -/
def loop : Nat → Bytes → Bool → Bytes → Option Bytes
  | 0, _, _, acc => some acc
  | _, [], _, acc => some acc
  | fuel + 1, s, escaping, acc =>
    let (r0, size) := Utf8.decodeRune s
    let s1 := s.drop size
    if r0 == Utf8.runeError && size == 1 && !escaping then
      loop fuel s1 escaping (acc ++ s.take 1)
    else
    -- the rune after processing an escape, and the rest of the input
    let step : Option (Int × Bytes) :=
      if escaping then
        if r0 == 117 then          -- 'u'
          if s1.length < 4 then none
          else (parseHex4 (s1.take 4)).map (fun n => surrogatePair n (s1.drop 4))
        else if r0 == 34 then some (34, s1)   -- \" (accepted on input only; never written by quoteString)
        else (unescape r0).map (fun r => (Int.ofNat r, s1))
      else some (Int.ofNat r0, s1)
    match step with
    | none => none
    | some (r, s2) =>
      let escaping' := (r == 92) && !escaping
      loop fuel s2 escaping' (if escaping' then acc else acc ++ Utf8.encodeRune r)

def unquoteString (s : Bytes) : Option Bytes :=
  let n := s.length
  if n < 2 then none
  else if s.head? != some 39 || s.getLast? != some 39 then none
  else
    let inner := (s.drop 1).take (n - 2)
    if !inner.contains 92 && !inner.contains 39 then some inner
    else loop inner.length inner false []

end SoyVerif.Model.Quote
