/-
  Model of the parser of parse/parse.go — the token-level machinery (`next`, `backup`,
  `backup2`, `peek`, `expect`, `unexpected`, `errorf`) and the EXPRESSION parser
  (`parseExpr` precedence climbing, `parseExprFirstTerm`, `parseTernary`,
  `newValueNode`, `parseDataRef`, `parseListOrMap`, `parseListLiteral`,
  `parseMapLiteral`, `newGlobalNode`, `newFunctionNode`).

  The parser consumes the list of items the lexer sends on its channel; once the list
  is exhausted the (closed) channel yields zero items for ever.  Recursion is on a
  fuel argument (mutual structural recursion on `Nat`); `fuelOut` is the model's
  prediction that the Go code would not terminate.  Go runtime panics on the path
  (`t.token[2]`, `tok.val[1:]` of an empty string, failed type assertions) are
  explicit `panic` outcomes.  Errors carry the byte position that `errorf` turns into
  line and column.

  The tables (`precedence`, `isBinaryOp`, `isUnaryOp`) are the GENERATED ones, dumped
  from the running code of /repo on every run (Gen/ParseTables.lean).
-/
import SoyVerif.Model.Token
import SoyVerif.Model.Ast
import SoyVerif.Model.Quote
import SoyVerif.Gen.ParseTables

namespace SoyVerif.Model.Parser
open SoyVerif SoyVerif.Model

inductive PErr where
  | err (pos : Nat)     -- parse error reported at this byte position
  | panic               -- a Go runtime panic escapes (re-panicked by tree.recover)
  | fuelOut             -- no termination within the fuel
  deriving Repr, DecidableEq, Inhabited

structure PState where
  rest : List Item        -- items the lexer has not delivered yet
  tok0 : Item             -- t.token[0]
  tok1 : Item             -- t.token[1]
  peekCount : Nat
  deriving Repr, Inhabited

abbrev P := StateT PState (Except PErr)

def initState (items : List Item) : PState :=
  { rest := items, tok0 := Item.zero, tok1 := Item.zero, peekCount := 0 }

def fail {α : Type} (e : PErr) : P α := fun _ => Except.error e

/-- `t.lex.nextItem()`: the next item of the channel, the zero item once it is closed -/
def nextItem : P Item := fun st =>
  match st.rest with
  | [] => Except.ok (Item.zero, st)
  | x :: r => Except.ok (x, { st with rest := r })

/-- `t.token[i]` of the two-element array -/
def tokenAt (i : Nat) : P Item := fun st =>
  if i == 0 then Except.ok (st.tok0, st)
  else if i == 1 then Except.ok (st.tok1, st)
  else Except.error PErr.panic

def next : P Item := do
  let st ← get
  if st.peekCount > 0 then
    set { st with peekCount := st.peekCount - 1 }
  else
    let it ← nextItem
    modify fun s => { s with tok0 := it }
  let st ← get
  tokenAt st.peekCount

def backup : P Unit := modify fun s => { s with peekCount := s.peekCount + 1 }

def backup2 (t1 : Item) : P Unit := modify fun s => { s with tok1 := t1, peekCount := 2 }

def peek : P Item := do
  let st ← get
  if st.peekCount > 0 then tokenAt (st.peekCount - 1)
  else
    let it ← nextItem
    modify fun s => { s with peekCount := 1, tok0 := it }
    pure it

/-- the position `errorf` reports: that of the current token, taking account of backups -/
def errPos (st : PState) : Except PErr Nat :=
  if st.peekCount > 0 then
    (if st.peekCount - 1 == 0 then Except.ok st.tok0.pos
     else if st.peekCount - 1 == 1 then Except.ok st.tok1.pos
     else Except.error PErr.panic)
  else Except.ok st.tok0.pos

/-- `t.errorf(...)` -/
def errorf {α : Type} : P α := fun st =>
  match errPos st with
  | Except.ok p => Except.error (PErr.err p)
  | Except.error e => Except.error e

/-- `t.unexpected(token, ctx)`: the offending token is made the current one first, so the
    error is reported at ITS position whatever look-ahead has been read since (518abbf) -/
def unexpected {α : Type} (token : Item) : P α := do
  modify fun s => { s with tok0 := token, peekCount := 0 }
  errorf

/-- `atTextStart(tok)` of parse.go: the text token positioned at its first non-blank character —
    not space, tab, CR, LF (`isSpaceEOL`).  A token's position is its end; a text token runs through
    the line breaks and the indentation behind the text.  Used by the file parser: stray text between
    the params of a {call} or the cases of a {switch} is reported where the text begins (/repo
    ac1c871).  (`tok.pos - len(tok.val)` is the start of the token, never negative for a token of
    the lexer; `start + i` is written `pos + i - len` so that it is Go's value whenever that is not
    negative.) -/
def atTextStart (tok : Item) : Item :=
  match tok.val.findIdx? (fun b => !(b == 32 || b == 9 || b == 13 || b == 10)) with
  | some i => { tok with pos := tok.pos + i - tok.val.length }
  | none => tok

def expect (expected : ItemType) : P Item := do
  let token ← next
  if token.typ != expected then unexpected token
  pure token

/-! ### tables -/

def precedence (t : ItemType) : Nat :=
  match Gen.ParseTables.precedence.find? (·.1 == t) with
  | some (_, q) => q
  | none => 0

def isBinaryOp (t : ItemType) : Bool := Gen.ParseTables.binaryOps.contains t
def isUnaryOp (t : ItemType) : Bool := Gen.ParseTables.unaryOps.contains t

/-- `isValue` -/
def isValue (t : ItemType) : Bool :=
  t == .tNull || t == .tBool || t == .tInteger || t == .tFloat || t == .tDollarIdent || t == .tString ||
  t == .tIdent || t == .tLeftBracket

/-- `newBinaryOpNode`: the operator of a binary token (`panic("unimplemented")` otherwise) -/
def binOpOf : ItemType → Option BinOp
  | .tMul => some .mul | .tDiv => some .div | .tMod => some .mod | .tAdd => some .add | .tSub => some .sub
  | .tEq => some .eq | .tNotEq => some .ne | .tGt => some .gt | .tGte => some .ge | .tLt => some .lt
  | .tLte => some .le | .tOr => some .or | .tAnd => some .and | .tElvis => some .elvis
  | _ => none

/-! ### literals -/

def decDigits (s : Bytes) : Option Nat :=
  match s with
  | [] => none
  | _ => s.foldlM (fun acc d => if 48 ≤ d.toNat && d.toNat ≤ 57 then some (acc * 10 + (d.toNat - 48)) else none) 0

def inInt64 (v : Int) : Bool := -9223372036854775808 ≤ v && v ≤ 9223372036854775807

/-- strconv.ParseInt(s, 10, 64): optional sign, digits; `none` = error (syntax or range) -/
def parseInt10 (s : Bytes) : Option Int :=
  let r : Option Int := match s with
    | 45 :: ds => (decDigits ds).map (fun n => - Int.ofNat n)
    | 43 :: ds => (decDigits ds).map Int.ofNat
    | ds => (decDigits ds).map Int.ofNat
  r.bind fun v => if inInt64 v then some v else none

/-- strconv.ParseInt(s, 16, 64) -/
def parseInt16 (s : Bytes) : Option Int :=
  let r : Option Int := match s with
    | 45 :: ds => (Quote.hexDigits ds).map (fun n => - Int.ofNat n)
    | 43 :: ds => (Quote.hexDigits ds).map Int.ofNat
    | ds => (Quote.hexDigits ds).map Int.ofNat
  r.bind fun v => if inInt64 v then some v else none

/-- the integer literal of `newValueNode` -/
def intLiteral (val : Bytes) : Option Int :=
  match val with
  | 48 :: 120 :: ds => parseInt16 ds      -- "0x…"
  | _ => parseInt10 val

/-- Go's `s[1:]`: panics on the empty string -/
def tail1 (s : Bytes) : P Bytes :=
  match s with
  | [] => fail PErr.panic
  | _ :: r => pure r

/-! ### the expression parser -/

section
-- `pf` = strconv.ParseFloat(s, 64) on a float token: the bits, or `none` for an error (range)
variable (pf : Bytes → Option UInt64)

mutual
  /-- `parseExpr(prec)` -/
  def parseExpr : Nat → Nat → P Expr
    | 0, _ => fail PErr.fuelOut
    | fuel + 1, prec => do
      let n ← parseExprFirstTerm fuel
      exprLoop fuel prec n

  /-- the operator loop of `parseExpr` and what follows it -/
  def exprLoop : Nat → Nat → Expr → P Expr
    | 0, _, _ => fail PErr.fuelOut
    | fuel + 1, prec, n => do
      let tok ← next
      let q := precedence tok.typ
      if !isBinaryOp tok.typ || q < prec then
        if prec == 0 && tok.typ == .tTernIf then parseTernary fuel n
        else do backup; pure n
      else
        -- `?:` shares the lowest level with the ternary and associates to the right: its right operand is
        -- `parseExpr(0)` (then `continue`); every other operator takes `parseExpr(q + 1)`
        let rhs ← parseExpr fuel (if tok.typ == .tElvis then 0 else q + 1)
        match binOpOf tok.typ with
        | some op => exprLoop fuel prec (Expr.bin op tok.pos n rhs)
        | none => fail PErr.panic      -- panic("unimplemented")

  /-- `parseExprFirstTerm` -/
  def parseExprFirstTerm : Nat → P Expr
    | 0 => fail PErr.fuelOut
    | fuel + 1 => do
      let tok ← next
      if isUnaryOp tok.typ then
        let arg ← parseExpr fuel (precedence tok.typ)
        if tok.typ == .tNot then pure (Expr.not tok.pos arg)
        else if tok.typ == .tNegate then pure (Expr.neg tok.pos arg)
        else fail PErr.panic           -- panic("unreachable")
      else if tok.typ == .tLeftParen then
        let n ← parseExpr fuel 0
        let _ ← expect .tRightParen
        pure n
      else if isValue tok.typ then newValueNode fuel tok
      else unexpected tok

  /-- `newValueNode` -/
  def newValueNode : Nat → Item → P Expr
    | 0, _ => fail PErr.fuelOut
    | fuel + 1, tok =>
      match tok.typ with
      | .tNull => pure (Expr.null tok.pos)
      | .tBool => pure (Expr.bool tok.pos (tok.val == [116, 114, 117, 101]))
      | .tInteger =>
        match intLiteral tok.val with
        | some v => pure (Expr.int tok.pos v)
        | none => errorf
      | .tFloat =>
        match pf tok.val with
        | some bits => pure (Expr.float tok.pos bits)
        | none => errorf
      | .tString =>
        match Quote.unquoteString tok.val with
        | some s => pure (Expr.str tok.pos tok.val s)
        | none => errorf
      | .tLeftBracket => parseListOrMap fuel tok
      | .tDollarIdent => do
        let key ← tail1 tok.val
        let acc ← parseDataRef fuel
        pure (Expr.dataRef tok.pos key acc)
      | .tIdent => do
        let nxt ← next
        if nxt.typ != .tLeftParen then newGlobalNode fuel tok.pos tok.val nxt
        else newFunctionNode fuel tok
      | _ => fail PErr.panic             -- panic("unreachable")

  /-- the access chain of `parseDataRef` -/
  def parseDataRef : Nat → P AccessList
    | 0 => fail PErr.fuelOut
    | fuel + 1 => do
      let tok ← next
      match tok.typ with
      | .tQuestionDotIdent => do
        -- tok.val[nullsafe+1:] with nullsafe = 1
        let k ← tail1 (← tail1 tok.val)
        let r ← parseDataRef fuel
        pure (AccessList.cons (Access.key tok.pos true k) r)
      | .tDotIdent => do
        let k ← tail1 tok.val
        let r ← parseDataRef fuel
        pure (AccessList.cons (Access.key tok.pos false k) r)
      | .tQuestionDotIndex => do
        let d ← tail1 (← tail1 tok.val)
        match parseInt10 d with
        | some i =>
          let r ← parseDataRef fuel
          pure (AccessList.cons (Access.index tok.pos true i) r)
        | none => errorf
      | .tDotIndex => do
        let d ← tail1 tok.val
        match parseInt10 d with
        | some i =>
          let r ← parseDataRef fuel
          pure (AccessList.cons (Access.index tok.pos false i) r)
        | none => errorf
      | .tQuestionKey => do
        let e ← parseExpr fuel 0
        let _ ← expect .tRightBracket
        let r ← parseDataRef fuel
        pure (AccessList.cons (Access.expr tok.pos true e) r)
      | .tLeftBracket => do
        let e ← parseExpr fuel 0
        let _ ← expect .tRightBracket
        let r ← parseDataRef fuel
        pure (AccessList.cons (Access.expr tok.pos false e) r)
      | _ => do backup; pure AccessList.nil

  /-- `parseListOrMap`: "[" has just been read -/
  def parseListOrMap : Nat → Item → P Expr
    | 0, _ => fail PErr.fuelOut
    | fuel + 1, token => do
      let t1 ← next
      if t1.typ == .tColon then
        let _ ← expect .tRightBracket
        pure (Expr.map token.pos MapItems.nil)
      else if t1.typ == .tRightBracket then
        pure (Expr.list token.pos ExprList.nil)
      else
        backup
        let firstExpr ← parseExpr fuel 0
        let tok ← next
        if tok.typ == .tColon then
          -- parseMapLiteral: the first key must be a string literal
          match firstExpr with
          | Expr.str _ _ key => do
            let items ← parseMapItems fuel key MapItems.nil
            pure (Expr.map token.pos items)
          | _ => errorf
        else if tok.typ == .tComma then do
          let items ← parseListItems fuel
          pure (Expr.list token.pos (ExprList.cons firstExpr items))
        else if tok.typ == .tRightBracket then
          pure (Expr.list token.pos (ExprList.cons firstExpr ExprList.nil))
        else unexpected tok

  /-- the loop of `parseListLiteral` ("," has just been read) -/
  def parseListItems : Nat → P ExprList
    | 0 => fail PErr.fuelOut
    | fuel + 1 => do
      let pk ← peek
      if pk.typ == .tRightBracket then      -- trailing comma
        let _ ← next
        pure ExprList.nil
      else
        let e ← parseExpr fuel 0
        let nxt ← next
        if nxt.typ == .tRightBracket then pure (ExprList.cons e ExprList.nil)
        else if nxt.typ != .tComma then unexpected nxt
        else do
          let r ← parseListItems fuel
          pure (ExprList.cons e r)

  /-- the loop of `parseMapLiteral` (":" after `key` has just been read) -/
  def parseMapItems : Nat → Bytes → MapItems → P MapItems
    | 0, _, _ => fail PErr.fuelOut
    | fuel + 1, key, items => do
      let v ← parseExpr fuel 0
      let items := items.set key v
      let nxt ← next
      if nxt.typ == .tRightBracket then pure items
      else if nxt.typ != .tComma then unexpected nxt
      else do
        let pk ← peek
        if pk.typ == .tRightBracket then    -- trailing comma
          let _ ← next
          pure items
        else
          let tok ← expect .tString
          match Quote.unquoteString tok.val with
          | some k => do
            let _ ← expect .tColon
            parseMapItems fuel k items
          | none => errorf

  /-- `parseTernary`: "?" has been read, `cond` is given -/
  def parseTernary : Nat → Expr → P Expr
    | 0, _ => fail PErr.fuelOut
    | fuel + 1, cond => do
      let n1 ← parseExpr fuel 0
      let _ ← expect .tColon
      let n2 ← parseExpr fuel 0
      pure (Expr.tern cond.pos cond n1 n2)

  /-- `newGlobalNode`: dotted name -/
  def newGlobalNode : Nat → Nat → Bytes → Item → P Expr
    | 0, _, _, _ => fail PErr.fuelOut
    | fuel + 1, pos, name, nxt =>
      if nxt.typ == .tDotIdent then do
        let n2 ← next
        newGlobalNode fuel pos (name ++ nxt.val) n2
      else do
        backup
        pure (Expr.global pos name)

  /-- `newFunctionNode`: "(" has just been read -/
  def newFunctionNode : Nat → Item → P Expr
    | 0, _ => fail PErr.fuelOut
    | fuel + 1, tok => do
      let pk ← peek
      if pk.typ == .tRightParen then
        let _ ← next
        pure (Expr.func tok.pos tok.val ExprList.nil)
      else
        let args ← parseFuncArgs fuel
        pure (Expr.func tok.pos tok.val args)

  def parseFuncArgs : Nat → P ExprList
    | 0 => fail PErr.fuelOut
    | fuel + 1 => do
      let e ← parseExpr fuel 0
      let tok ← next
      if tok.typ == .tComma then do
        let r ← parseFuncArgs fuel
        pure (ExprList.cons e r)
      else if tok.typ == .tRightParen then pure (ExprList.cons e ExprList.nil)
      else unexpected tok          -- (`case eof:` compares with the rune constant -1 and never matches)
end

/-- fuel that suffices for any terminating parse of `n` tokens (each call level or loop
    iteration consumes a token or is one of a bounded number of wrappers) -/
def fuelFor (n : Nat) : Nat := 8 * n + 64

/-- `parse.Expr(str)` on the item list of `lexExpr(str)`: the tree, or the error -/
def parseExprEntry (items : List Item) : Except PErr Expr :=
  match (parseExpr pf (fuelFor items.length) 0).run (initState items) with
  | Except.ok (e, _) => Except.ok e
  | Except.error err => Except.error err

/-- What the caller of `parse.Expr` can observe about the lexer goroutine: the result, how
    many items the parser took from the channel, and whether the channel was drained
    before returning.  `Expr` drains after a successful parse; on an error `tree.recover`
    drains — except for a Go runtime error, which it re-panics BEFORE draining. -/
structure EntryOutcome where
  result : Except PErr Expr
  drained : Bool

def exprEntry (items : List Item) : EntryOutcome :=
  match (parseExpr pf (fuelFor items.length) 0).run (initState items) with
  | Except.ok (e, _) => { result := Except.ok e, drained := true }
  | Except.error (PErr.err p) => { result := Except.error (PErr.err p), drained := true }
  | Except.error PErr.panic => { result := Except.error PErr.panic, drained := false }
  | Except.error PErr.fuelOut => { result := Except.error PErr.fuelOut, drained := false }

end
end SoyVerif.Model.Parser
