/-
  Model of the `json` print directive on an arbitrary Soy value: soyhtml/directives.go
  `directiveJson` = `encoding/json.Marshal(value)` on the types of data/value.go (by reflection):

    Undefined, Null   "null"                    (their MarshalJSON methods, value.go:58-59)
    Bool              true / false
    Int (int64)       strconv.FormatInt
    Float (float64)   encoding/json's floatEncoder: ES6 Number::toString layout ('f' for
                      1e-6 ≤ |x| < 1e21, otherwise 'e' with the exponent cleaned up to e-9 / e+21),
                      except that negative zero is written "-0"; NaN and ±Inf are an
                      UnsupportedValueError — `directiveJson` panics: `none`
    String            encoding/json's string encoder with escapeHTML (`Escape.jsonString`)
    List  ([]Value)   "null" for the nil slice, otherwise "[" elements joined by "," "]"
    Map (map[string]Value)  "null" for the nil map, otherwise "{" "key":value … "}" with the keys
                      sorted bytewise (encoding/json sorts map keys) — keys go through the same
                      string encoder

  `none` = json.Marshal returns an error (the directive panics; a render error).
-/
import SoyVerif.Model.Value
import SoyVerif.Model.Escape

namespace SoyVerif.Model.JsonMarshal
open SoyVerif SoyVerif.Model

def sNull : Bytes := [110, 117, 108, 108]
def sTrue : Bytes := [116, 114, 117, 101]
def sFalse : Bytes := [102, 97, 108, 115, 101]

/-- encoding/json floatEncoder for float64 -/
def jsonFloat (f : F64) : Option Bytes :=
  if f.isNaN || f.isInf then none
  else if f.isZero then some (if f.sign then [45, 48] else [48])
  else some f.formatJS

/-- insertion into a list sorted by key (bytewise `<=`, Go's string order) -/
def insertByKey {α : Type} (x : Bytes × α) : List (Bytes × α) → List (Bytes × α)
  | [] => [x]
  | y :: ys => if Value.bytesLe x.1 y.1 then x :: y :: ys else y :: insertByKey x ys

/-- the entries in the order encoding/json writes them: sorted by key -/
def sortByKey {α : Type} : List (Bytes × α) → List (Bytes × α)
  | [] => []
  | x :: xs => insertByKey x (sortByKey xs)

/-- `"key":value` joined by "," -/
def joinMembers : List (Bytes × Bytes) → Bytes
  | [] => []
  | [(k, a)] => jsonString k ++ [58] ++ a
  | (k, a) :: y :: r => jsonString k ++ [58] ++ a ++ [44] ++ joinMembers (y :: r)

mutual
  /-- `json.Marshal(v)` -/
  def jsonMarshal : Value → Option Bytes
    | .undefined => some sNull
    | .null => some sNull
    | .bool b => some (if b then sTrue else sFalse)
    | .int i => some (F64.intDigits i.toInt)
    | .float f => jsonFloat f
    | .str s => some (jsonString s)
    | .list id xs =>
      if id == 0 then some sNull
      else match marshalElems xs with
        | some body => some ([91] ++ body ++ [93])
        | none => none
    | .map id kvs =>
      if id == 0 then some sNull
      else match marshalMembers kvs with
        | some ms => some ([123] ++ joinMembers (sortByKey ms) ++ [125])
        | none => none
  /-- the elements, joined by "," -/
  def marshalElems : List Value → Option Bytes
    | [] => some []
    | [x] => jsonMarshal x
    | x :: y :: r =>
      match jsonMarshal x, marshalElems (y :: r) with
      | some a, some b => some (a ++ [44] ++ b)
      | _, _ => none
  /-- every entry as (key, marshalled value), in the stored order (sorting happens on these: the order
      of the keys does not depend on the values) -/
  def marshalMembers : List (Bytes × Value) → Option (List (Bytes × Bytes))
    | [] => some []
    | (k, v) :: r =>
      match jsonMarshal v, marshalMembers r with
      | some a, some ms => some ((k, a) :: ms)
      | _, _ => none
end

end SoyVerif.Model.JsonMarshal
