/-
  The token view of the expression printer (ast/node.go `String()` methods, model
  `Printer.printExpr`) — used by the round-trip theorems of C17 / C01.

  * `Tk`        a position-free token: the type and the text (`val`) of a lexer item.
  * `pieces`    mirrors `Printer.printExpr` STRUCTURALLY (same parenthesisation decisions,
                same separators), but emits tokens and explicit space markers instead of
                bytes; `spell (pieces e) = printExpr e` is `Lemmas.ParserToks.spell_pieces`.
  * `toks`      the tokens of `pieces` (spaces dropped): what the lexer delivers for the
                printed text.
  * `Renders`   every token spelling of a tree the theorems cover: the printer's minimal
                parenthesisation or any number of redundant parentheses around any operand,
                list item, argument, map value, index expression, and any spelling of an
                integer / float / map-key literal that denotes the same value.
  * `erase`     the tree without positions;  `Canon` the side conditions under which
                `toks e` renders `e` (the image of the parser).
-/
import SoyVerif.Model.Parser
import SoyVerif.Model.Printer

namespace SoyVerif.Model.PrintTokens
open SoyVerif SoyVerif.Model SoyVerif.Model.Printer

/-- a token without its position -/
structure Tk where
  typ : ItemType
  val : Bytes
  deriving DecidableEq, Repr, Inhabited

end SoyVerif.Model.PrintTokens

namespace SoyVerif.Model
/-- forget the position of a lexer item -/
def Item.tk (i : Item) : PrintTokens.Tk := ⟨i.typ, i.val⟩
end SoyVerif.Model

namespace SoyVerif.Model.PrintTokens
open SoyVerif SoyVerif.Model SoyVerif.Model.Printer

/-- a token or one space of the printed text -/
inductive Piece where
  | tok (t : Tk)
  | sp
  deriving DecidableEq, Repr, Inhabited

/-- the token type of a binary operator (inverse of `Parser.binOpOf`) -/
def tokOf : BinOp → ItemType
  | .mul => .tMul | .div => .tDiv | .mod => .tMod | .add => .tAdd | .sub => .tSub
  | .eq => .tEq | .ne => .tNotEq | .gt => .tGt | .ge => .tGte | .lt => .tLt
  | .le => .tLte | .or => .tOr | .and => .tAnd | .elvis => .tElvis

/-! ### fixed tokens (type and spelling) -/
def tLP : Tk := ⟨.tLeftParen, [40]⟩
def tRP : Tk := ⟨.tRightParen, [41]⟩
def tLB : Tk := ⟨.tLeftBracket, [91]⟩
def tRB : Tk := ⟨.tRightBracket, [93]⟩
def tQKey : Tk := ⟨.tQuestionKey, [63, 91]⟩
def tComma : Tk := ⟨.tComma, [44]⟩
def tColon : Tk := ⟨.tColon, [58]⟩
def tTernIf : Tk := ⟨.tTernIf, [63]⟩
def tNot : Tk := ⟨.tNot, [110, 111, 116]⟩
def tNeg : Tk := ⟨.tNegate, [45]⟩
def tNull : Tk := ⟨.tNull, [110, 117, 108, 108]⟩
def tBool (b : Bool) : Tk := ⟨.tBool, if b then [116, 114, 117, 101] else [102, 97, 108, 115, 101]⟩
def tOp (op : BinOp) : Tk := ⟨tokOf op, op.sym⟩
def tEOF : Tk := ⟨.tEOF, []⟩
def tIdent (n : Bytes) : Tk := ⟨.tIdent, n⟩
def tDotIdent (s : Bytes) : Tk := ⟨.tDotIdent, s⟩
def tString (q : Bytes) : Tk := ⟨.tString, q⟩

/-- a dotted name `a.b.c` cut into `a` and the segments `.b`, `.c` (lossless:
    `splitDots_flatten`) — the Ident token and the DotIdent tokens of a global -/
def splitDots : Bytes → Bytes × List Bytes
  | [] => ([], [])
  | b :: r =>
    if b == 46 then ([], (46 :: (splitDots r).1) :: (splitDots r).2)
    else (b :: (splitDots r).1, (splitDots r).2)

def globalToks (n : Bytes) : List Tk :=
  tIdent (splitDots n).1 :: (splitDots n).2.map tDotIdent

/-- operandString at the token level -/
def wrapP (e : Expr) (minPrec : Nat) (s : List Piece) : List Piece :=
  if precedenceOf e < minPrec then [.tok tLP] ++ s ++ [.tok tRP] else s

section
variable (ff : UInt64 → Bytes)

mutual
  /-- `Printer.printExpr` with tokens and space markers for bytes -/
  def pieces : Expr → List Piece
    | .null _ => [.tok tNull]
    | .bool _ b => [.tok (tBool b)]
    | .int _ v => [.tok ⟨.tInteger, fmtInt v⟩]
    | .float _ bits => [.tok ⟨.tFloat, fmtFloatLit ff bits⟩]
    | .str _ q _ => [.tok (tString q)]
    | .global _ n => (globalToks n).map .tok
    | .func _ n args => [.tok (tIdent n), .tok tLP] ++ piecesArgs args true ++ [.tok tRP]
    | .list _ items => [.tok tLB] ++ piecesItems items true ++ [.tok tRB]
    | .map _ items =>
        match items with
        | .nil => [.tok tLB, .tok tColon, .tok tRB]
        | _ => [.tok tLB] ++ piecesMap items true ++ [.tok tRB]
    | .dataRef _ k acc => [.tok ⟨.tDollarIdent, [36] ++ k⟩] ++ piecesAccs acc
    | .not _ a => [.tok tNot, .sp] ++ wrapP a precUnary (pieces a)
    | .neg _ a =>
        match a with
        | .int .. => [.tok tNeg, .tok tLP] ++ pieces a ++ [.tok tRP]
        | .float .. => [.tok tNeg, .tok tLP] ++ pieces a ++ [.tok tRP]
        | _ => [.tok tNeg] ++ wrapP a precUnary (pieces a)
    | .bin op _ a b =>
        wrapP a (leftMin op) (pieces a) ++ [.sp, .tok (tOp op), .sp] ++ wrapP b (rightMin op) (pieces b)
    | .tern _ c a b =>
        wrapP c (precElvis + 1) (pieces c) ++ [.sp, .tok tTernIf, .sp] ++ wrapP a precElvis (pieces a) ++
          [.sp, .tok tColon, .sp] ++ pieces b
  def piecesArgs : ExprList → Bool → List Piece
    | .nil, _ => []
    | .cons e r, first => (if first then [] else [.tok tComma]) ++ pieces e ++ piecesArgs r false
  def piecesItems : ExprList → Bool → List Piece
    | .nil, _ => []
    | .cons e r, first => (if first then [] else [.tok tComma, .sp]) ++ pieces e ++ piecesItems r false
  def piecesMap : MapItems → Bool → List Piece
    | .nil, _ => []
    | .cons k e r, first =>
        (if first then [] else [.tok tComma, .sp]) ++ [.tok (tString (quoteString k))] ++
          [.tok tColon, .sp] ++ pieces e ++ piecesMap r false
  def piecesAccs : AccessList → List Piece
    | .nil => []
    | .cons a r => piecesAcc a ++ piecesAccs r
  def piecesAcc : Access → List Piece
    | .key _ ns k => [.tok (if ns then ⟨.tQuestionDotIdent, [63, 46] ++ k⟩ else ⟨.tDotIdent, [46] ++ k⟩)]
    | .index _ ns i => [.tok (if ns then ⟨.tQuestionDotIndex, [63, 46] ++ fmtInt i⟩ else ⟨.tDotIndex, [46] ++ fmtInt i⟩)]
    | .expr _ ns e => [.tok (if ns then tQKey else tLB)] ++ pieces e ++ [.tok tRB]
end

/-- the printed text of a piece list: every token is spelled by its `val` -/
def spell : List Piece → Bytes
  | [] => []
  | .tok t :: r => t.val ++ spell r
  | .sp :: r => 32 :: spell r

/-- drop the spaces -/
def unsp : List Piece → List Tk
  | [] => []
  | .tok t :: r => t :: unsp r
  | .sp :: r => unsp r

/-- the tokens of the printed expression -/
def toks (e : Expr) : List Tk := unsp (pieces ff e)

end

/-! ### erasure of positions -/

mutual
  def erase : Expr → Expr
    | .null _ => .null 0
    | .bool _ b => .bool 0 b
    | .int _ v => .int 0 v
    | .float _ bits => .float 0 bits
    | .str _ q v => .str 0 q v
    | .global _ n => .global 0 n
    | .func _ n args => .func 0 n (eraseL args)
    | .list _ items => .list 0 (eraseL items)
    | .map _ items => .map 0 (eraseM items)
    | .dataRef _ k acc => .dataRef 0 k (eraseAL acc)
    | .not _ a => .not 0 (erase a)
    | .neg _ a => .neg 0 (erase a)
    | .bin op _ a b => .bin op 0 (erase a) (erase b)
    | .tern _ c a b => .tern 0 (erase c) (erase a) (erase b)
  def eraseL : ExprList → ExprList
    | .nil => .nil
    | .cons e r => .cons (erase e) (eraseL r)
  def eraseM : MapItems → MapItems
    | .nil => .nil
    | .cons k e r => .cons k (erase e) (eraseM r)
  def eraseAL : AccessList → AccessList
    | .nil => .nil
    | .cons a r => .cons (eraseA a) (eraseAL r)
  def eraseA : Access → Access
    | .key _ ns k => .key 0 ns k
    | .index _ ns i => .index 0 ns i
    | .expr _ ns e => .expr 0 ns (erase e)
end

/-! ### renderings -/

/-- `n` pairs of parentheses around a token list -/
def parensT : Nat → List Tk → List Tk
  | 0, ts => ts
  | n + 1, ts => [tLP] ++ parensT n ts ++ [tRP]

/-- an operand position that demands printer precedence `m`: a rendering (`R`) of `e` inside any
    number of parentheses — at least one pair if `e` binds less tightly than `m` -/
def Slot (m : Nat) (e : Expr) (R : List Tk → Prop) (ts : List Tk) : Prop :=
  ∃ n t0, R t0 ∧ ts = parensT n t0 ∧ (precedenceOf e < m → 0 < n)

/-- the precedence the operand of unary minus must have to stand without parentheses:
    a number literal never does (`-5` is one token for the lexer, the printer writes `-(5)`) -/
def negMin : Expr → Nat
  | .int .. => precPrimary + 1
  | .float .. => precPrimary + 1
  | _ => precUnary

/-- all keys of later entries are greater (Go: `sort.Strings` of distinct keys) -/
def keysOf : MapItems → List Bytes
  | .nil => []
  | .cons k _ r => k :: keysOf r

def SortedKeys : MapItems → Prop
  | .nil => True
  | .cons k _ r => (∀ k' ∈ keysOf r, Bytes.lt k k' = true) ∧ SortedKeys r

section
variable (pf : Bytes → Option UInt64)

mutual
  /-- `Renders e ts`: `ts` is a token spelling of `e` -/
  def Renders : Expr → List Tk → Prop
    | .null _, ts => ts = [tNull]
    | .bool _ b, ts => ts = [tBool b]
    | .int _ v, ts => ∃ val, ts = [⟨.tInteger, val⟩] ∧ Parser.intLiteral val = some v
    | .float _ bits, ts => ∃ val, ts = [⟨.tFloat, val⟩] ∧ pf val = some bits
    | .str _ q v, ts => ts = [tString q] ∧ Quote.unquoteString q = some v
    | .global _ n, ts => ∃ (n0 : Bytes) (segs : List Bytes), ts = tIdent n0 :: segs.map tDotIdent ∧ n = n0 ++ segs.flatten
    | .func _ n args, ts =>
        match args with
        | .nil => ts = [tIdent n, tLP, tRP]
        | .cons e r => ∃ te tr, Slot 0 e (Renders e) te ∧ RendersSeq r tr ∧ ts = [tIdent n, tLP] ++ te ++ tr ++ [tRP]
    | .list _ items, ts =>
        match items with
        | .nil => ts = [tLB, tRB]
        | .cons e r => ∃ te tr, Slot 0 e (Renders e) te ∧ RendersSeq r tr ∧ ts = [tLB] ++ te ++ tr ++ [tRB]
    | .map _ items, ts =>
        match items with
        | .nil => ts = [tLB, tColon, tRB]
        | .cons k e r => ∃ q te tr, Quote.unquoteString q = some k ∧ Slot 0 e (Renders e) te ∧ RendersEntries r tr ∧
            SortedKeys (.cons k e r) ∧ ts = [tLB, tString q, tColon] ++ te ++ tr ++ [tRB]
    | .dataRef _ k acc, ts => ∃ ta, RendersAccs acc ta ∧ ts = ⟨.tDollarIdent, 36 :: k⟩ :: ta
    | .not _ a, ts => ∃ ta, Slot precUnary a (Renders a) ta ∧ ts = tNot :: ta
    | .neg _ a, ts => ∃ ta, Slot (negMin a) a (Renders a) ta ∧ ts = tNeg :: ta
    | .bin op _ a b, ts => ∃ ta tb, Slot (leftMin op) a (Renders a) ta ∧ Slot (rightMin op) b (Renders b) tb ∧
        ts = ta ++ [tOp op] ++ tb
    | .tern _ c a b, ts => ∃ tc ta tb, Slot (precElvis + 1) c (Renders c) tc ∧ Slot precElvis a (Renders a) ta ∧
        Slot 0 b (Renders b) tb ∧ ts = tc ++ [tTernIf] ++ ta ++ [tColon] ++ tb
  /-- further list items / arguments, each preceded by a comma -/
  def RendersSeq : ExprList → List Tk → Prop
    | .nil, ts => ts = []
    | .cons e r, ts => ∃ te tr, Slot 0 e (Renders e) te ∧ RendersSeq r tr ∧ ts = [tComma] ++ te ++ tr
  /-- further map entries `, 'k': v` -/
  def RendersEntries : MapItems → List Tk → Prop
    | .nil, ts => ts = []
    | .cons k e r, ts => ∃ q te tr, Quote.unquoteString q = some k ∧ Slot 0 e (Renders e) te ∧ RendersEntries r tr ∧
        ts = [tComma, tString q, tColon] ++ te ++ tr
  def RendersAccs : AccessList → List Tk → Prop
    | .nil, ts => ts = []
    | .cons a r, ts => ∃ ta tr, RendersAcc a ta ∧ RendersAccs r tr ∧ ts = ta ++ tr
  def RendersAcc : Access → List Tk → Prop
    | .key _ ns k, ts => ts = [if ns then ⟨.tQuestionDotIdent, 63 :: 46 :: k⟩ else ⟨.tDotIdent, 46 :: k⟩]
    | .index _ ns i, ts => ∃ d, Parser.parseInt10 d = some i ∧
        ts = [if ns then ⟨.tQuestionDotIndex, 63 :: 46 :: d⟩ else ⟨.tDotIndex, 46 :: d⟩]
    | .expr _ ns e, ts => ∃ te, Slot 0 e (Renders e) te ∧ ts = [if ns then tQKey else tLB] ++ te ++ [tRB]
end

end

/-! ### the image of the parser -/

section
variable (ff : UInt64 → Bytes) (pf : Bytes → Option UInt64)

mutual
  /-- side conditions under which the printed tokens of a tree render it, i.e. the tree is one the
      parser returns: literals in range and consistent, map keys strictly ascending (every key is
      re-quotable: `Lemmas.ParserQuote.requote`),
      float literals reproduced by the (parameter) float functions -/
  def Canon : Expr → Prop
    | .null _ => True
    | .bool _ _ => True
    | .int _ v => Parser.inInt64 v = true
    | .float _ bits => pf (fmtFloatLit ff bits) = some bits
    | .str _ q v => Quote.unquoteString q = some v
    | .global _ _ => True
    | .func _ _ args => CanonL args
    | .list _ items => CanonL items
    | .map _ items => CanonM items ∧ SortedKeys items
    | .dataRef _ _ acc => CanonAL acc
    | .not _ a => Canon a
    | .neg _ a => Canon a
    | .bin _ _ a b => Canon a ∧ Canon b
    | .tern _ c a b => Canon c ∧ Canon a ∧ Canon b
  def CanonL : ExprList → Prop
    | .nil => True
    | .cons e r => Canon e ∧ CanonL r
  def CanonM : MapItems → Prop
    | .nil => True
    | .cons _ e r => Canon e ∧ CanonM r
  def CanonAL : AccessList → Prop
    | .nil => True
    | .cons a r => CanonA a ∧ CanonAL r
  def CanonA : Access → Prop
    | .key _ _ _ => True
    | .index _ _ i => Parser.inInt64 i = true
    | .expr _ _ e => Canon e
end

end

end SoyVerif.Model.PrintTokens
