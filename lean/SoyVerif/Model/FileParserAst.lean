/-
  Conversion of the parser model's dynamically typed trees (`FileParser.Node`) to the static
  tree type of Model/Ast.lean (`Cmd`, `Block`, `MsgParts`, …).  `none` = the tree has a shape
  the static type cannot hold (a `MsgPluralNode` that is not a direct child of a message body
  or of a plural case — the real parser accepts e.g. `{msg …}{log}{plural …}…{/log}{/msg}`).
-/
import SoyVerif.Model.FileParser

namespace SoyVerif.Model.FileParser
open SoyVerif SoyVerif.Model

mutual
  def Node.toCmd? : Node → Option Cmd
    | .rawText p t => some (.rawText p t)
    | .print p a ds => some (.print p a ds)
    | .msg p m d body =>
      match body with
      | .list bp ns => (toParts? ns).map fun parts => .msg p 0 m d bp parts
      | _ => none
    | .css p e s => some (.css p e s)
    | .debugger p => some (.debugger p)
    | .log p b => (toBlock? b).map fun b' => .log p b'
    | .ifc p conds => (toConds? conds).map fun c => .ifc p c
    | .forc p v l b .nil => (toBlock? b).map fun b' => .forc p v l b' none
    | .forc p v l b (.cons e _) =>
      match toBlock? b, toBlock? e with
      | some b', some e' => some (.forc p v l b' (some e'))
      | _, _ => none
    | .switch p v cases => (toCases? cases).map fun c => .switch p v c
    | .call p n all d params => (toParams? params).map fun ps => .call p n all d ps
    | .letValue p n e => some (.letValue p n e)
    | .letContent p n b => (toBlock? b).map fun b' => .letContent p n b'
    | .headerParam p o n tp t d => some (.headerParam p o n tp t d)
    | .nspace p n ae => some (.namespace p n ae)
    | .template p n b ae pr => (toBlock? b).map fun b' => .template p n b' ae pr
    | .soyDoc p ps => some (.soyDoc p ps)
    | _ => none
  def toBlock? : Node → Option Block
    | .list p ns => (toCmds? ns).map fun c => .mk p c
    | _ => none
  def toCmds? : NodeList → Option CmdList
    | .nil => some .nil
    | .cons n r =>
      match n.toCmd?, toCmds? r with
      | some c, some cs => some (.cons c cs)
      | _, _ => none
  def toConds? : NodeList → Option CondList
    | .nil => some .nil
    | .cons n r =>
      match n with
      | .ifCond p c b =>
        match toBlock? b, toConds? r with
        | some b', some r' => some (.cons p c b' r')
        | _, _ => none
      | _ => none
  def toCases? : NodeList → Option CaseList
    | .nil => some .nil
    | .cons n r =>
      match n with
      | .switchCase p vs b =>
        match toBlock? b, toCases? r with
        | some b', some r' => some (.cons p vs b' r')
        | _, _ => none
      | _ => none
  def toParams? : NodeList → Option ParamList
    | .nil => some .nil
    | .cons n r =>
      match n with
      | .paramValue p k e => (toParams? r).map fun r' => .value p k e r'
      | .paramContent p k b =>
        match toBlock? b, toParams? r with
        | some b', some r' => some (.content p k b' r')
        | _, _ => none
      | _ => none
  def toParts? : NodeList → Option MsgParts
    | .nil => some .nil
    | .cons n r =>
      match n with
      | .rawText p t => (toParts? r).map fun r' => .text p t r'
      | .placeholder p body =>
        match body with
        | .htmlTag tp t => (toParts? r).map fun r' => .ph p [] (.htmlTag tp t) r'
        | b =>
          match b.toCmd?, toParts? r with
          | some c, some r' => some (.ph p [] (.cmd c) r')
          | _, _ => none
      | .plural p v cases dflt =>
        match dflt with
        | .list dp dns =>
          match toPlCases? cases, toParts? dns, toParts? r with
          | some cs, some d, some r' => some (.plural p [] v cs dp d r')
          | _, _, _ => none
        | _ => none
      | _ => none
  def toPlCases? : NodeList → Option PluralCases
    | .nil => some .nil
    | .cons n r =>
      match n with
      | .pluralCase p v body =>
        match body with
        | .list bp bns =>
          match toParts? bns, toPlCases? r with
          | some b, some r' => some (.cons p v bp b r')
          | _, _ => none
        | _ => none
      | _ => none
end

/-- the file as a `SoyFile` of Model/Ast.lean, when every node has a static counterpart -/
def toSoyFile? (name text : Bytes) (body : List Node) : Option SoyFile :=
  (body.mapM Node.toCmd?).map fun cmds => { name := name, text := text, body := cmds }

end SoyVerif.Model.FileParser
