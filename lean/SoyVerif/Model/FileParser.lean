/-
  Model of the FILE-LEVEL parser of /repo/parse/parse.go: `SoyFile`, `itemList`,
  `textOrTag`, `beginTag` and every command parser (`parsePrint`, `parseAlias`, `parseLet`,
  `parseCss`, `parseCall`, `parseCallParams`, `parseSwitch`/`parseCase`, `parseFor`,
  `parseIf`, `parseSoyDoc`, `parseAttrs`, `parseMsg`, `parsePlural`, `placeholderize`,
  `parseMsgRawText`, `parseNamespace`, `parseAutoescape`, `parseTemplate`, `boolAttr`,
  `parseHeaderParam`, `parseQuotedExpr`).  The token machinery and the expression parser
  are those of Model/Parser.lean (unchanged), lifted into a state that adds the tree's
  `namespace`, `aliases` and `inmsg` fields.

  * Trees are `Node` (this file): the dynamically typed `ast.Node` values the parser builds,
    including the shapes the static tree type `Cmd` of Model/Ast.lean cannot hold (a
    `MsgPluralNode` that is not a direct child of a message body).  `Node.toCmd?` converts
    the well-formed ones to `Cmd`.
  * Recursion is by fuel (`fuelOut` = the model's prediction that the Go code would not
    terminate); each loop of parse.go is its own recursive function.
  * Every Go runtime panic site on the path is explicit (`panic`): `tok.val[1:]`, the
    token array index, `templateName[0]`, the type assertions of parsePlural /
    placeholderize, the index arithmetic of rawtext.  Panics raised by `t.errorf` are the
    ordinary error outcome `err pos` (byte position of the current token; the op turns it
    into line and column).
  * `parseQuotedExpr(str)` runs the LEXER MODEL (`Lex.lexAll str true`) and a fresh
    expression parser on its items; an error inside it is re-raised at the current token of
    the enclosing parser.
  * `strconv.Unquote`, `strings.TrimSpace`, `strings.LastIndex`, `unicode.IsSpace`, and the
    leftmost match of `htmlTagRegexp` are re-implemented here from their Go definitions and
    validated by the correspondence like everything else.
-/
import SoyVerif.Model.Parser
import SoyVerif.Model.Lexer
import SoyVerif.Model.RawText
import SoyVerif.Base.Utf8
import SoyVerif.Base.F64

namespace SoyVerif.Model.FileParser
open SoyVerif SoyVerif.Model SoyVerif.Model.Parser

/-! ## Go library functions used by the file parser -/

def isSpaceRune (r : Nat) : Bool := Lex.isSpaceU (r : Int)

/-- `for _, ch := range str { if !unicode.IsSpace(ch) { return false } }; return true` -/
def allSpace (s : Bytes) : Bool := (Utf8.runes s).all isSpaceRune

/-- strings.TrimLeftFunc(s, unicode.IsSpace) -/
def trimLeftSpace : Nat → Bytes → Bytes
  | 0, s => s
  | _, [] => []
  | fuel + 1, s =>
    let (r, w) := Utf8.decodeRune s
    if isSpaceRune r then trimLeftSpace fuel (s.drop w) else s

/-- utf8.DecodeLastRuneInString: (rune, size) -/
def decodeLastRune (s : Bytes) : Nat × Nat :=
  let a := s.toArray
  let e := a.size
  if e = 0 then (Utf8.runeError, 0)
  else
    let last := (a.getD (e - 1) 0).toNat
    if last < 0x80 then (last, 1)
    else
      -- lim := end - UTFMax; if lim < 0 { lim = 0 }
      let lim := e - 4
      -- for start--; start >= lim; start-- { if RuneStart(s[start]) { break } }
      let isStart (i : Nat) : Bool := ((a.getD i 0).toNat &&& 0xC0) != 0x80
      let cands := [2, 3, 4].filter fun k => k ≤ e && e - k ≥ lim
      let start : Nat := match cands.find? (fun k => isStart (e - k)) with
        | some k => e - k
        | none => lim - 1 -- the loop ran off `lim`; `if start < 0 { start = 0 }`
      let (r, size) := Utf8.decodeRune (s.drop start)
      if start + size ≠ e then (Utf8.runeError, 1) else (r, size)

/-- strings.TrimRightFunc(s, unicode.IsSpace) -/
def trimRightSpace : Nat → Bytes → Bytes
  | 0, s => s
  | fuel + 1, s =>
    if s.isEmpty then s
    else
      let (r, w) := decodeLastRune s
      if isSpaceRune r then trimRightSpace fuel (s.take (s.length - w)) else s

/-- strings.TrimSpace -/
def trimSpace (s : Bytes) : Bytes :=
  let l := trimLeftSpace s.length s
  trimRightSpace l.length l

/-- strings.LastIndex(s, ",") -/
def lastIndexByte (s : Bytes) (b : UInt8) : Option Nat :=
  ((List.range s.length).filter fun i => s[i]? == some b).getLast?

/-- strings.Index(s, ".") -/
def indexByte (s : Bytes) (b : UInt8) : Option Nat :=
  let i := s.findIdx (· == b)
  if i < s.length then some i else none

/-- utf8.ValidString -/
def validUtf8 : Nat → Bytes → Bool
  | 0, _ => true
  | _, [] => true
  | fuel + 1, s =>
    let (r, w) := Utf8.decodeRune s
    if r == Utf8.runeError && w == 1 then false else validUtf8 fuel (s.drop w)

def hexVal (b : UInt8) : Option Nat := Quote.hexDigitVal b

/-- `n` hex digits at the head of `s`: (value, rest) -/
def takeHex : Nat → Bytes → Nat → Option (Nat × Bytes)
  | 0, s, acc => some (acc, s)
  | _ + 1, [], _ => none
  | n + 1, b :: r, acc => (hexVal b).bind fun v => takeHex n r (acc * 16 + v)

/-- strconv.UnquoteChar(s, quote) for non-empty `s`: (rune, multibyte, rest); `none` = ErrSyntax -/
def unquoteChar (s : Bytes) (quote : UInt8) : Option (Nat × Bool × Bytes) :=
  match s with
  | [] => none
  | c :: rest =>
    if c == quote && (quote == 39 || quote == 34) then none
    else if c.toNat ≥ 0x80 then
      let (r, w) := Utf8.decodeRune s
      some (r, true, s.drop w)
    else if c != 92 then some (c.toNat, false, rest)
    else
      -- hard case: c is backslash
      match rest with
      | [] => none
      | e :: r2 =>
        match e.toNat with
        | 97 => some (7, false, r2)    -- \a
        | 98 => some (8, false, r2)    -- \b
        | 102 => some (12, false, r2)  -- \f
        | 110 => some (10, false, r2)  -- \n
        | 114 => some (13, false, r2)  -- \r
        | 116 => some (9, false, r2)   -- \t
        | 118 => some (11, false, r2)  -- \v
        | 120 => (takeHex 2 r2 0).map fun (v, r3) => (v, false, r3)   -- \xhh: a single byte
        | 117 => (takeHex 4 r2 0).bind fun (v, r3) =>
            if Utf8.validRune v then some (v, true, r3) else none       -- \uhhhh
        | 85 => (takeHex 8 r2 0).bind fun (v, r3) =>
            if Utf8.validRune v then some (v, true, r3) else none       -- \Uhhhhhhhh
        | 92 => some (92, false, r2)
        | 39 => if quote == 39 then some (39, false, r2) else none
        | 34 => if quote == 34 then some (34, false, r2) else none
        | d =>
          if 48 ≤ d ∧ d ≤ 55 then
            -- \ooo: exactly three octal digits, value ≤ 255
            match r2 with
            | d2 :: d3 :: r3 =>
              if 48 ≤ d2.toNat ∧ d2.toNat ≤ 55 ∧ 48 ≤ d3.toNat ∧ d3.toNat ≤ 55 then
                let v := (d - 48) * 64 + (d2.toNat - 48) * 8 + (d3.toNat - 48)
                if v > 255 then none else some (v, false, r3)
              else none
            | _ => none
          else none

/-- the escape-processing loop of strconv.unquote after the opening quote: returns the
    unquoted bytes and what follows the closing quote -/
def unquoteLoop : Nat → Bytes → UInt8 → Bytes → Option (Bytes × Bytes)
  | 0, _, _, _ => none
  | fuel + 1, s, quote, buf =>
    match s with
    | [] => none                                   -- no terminating quote
    | c :: rest =>
      if c == quote then some (buf, rest)
      else
        match unquoteChar s quote with
        | none => none
        | some (r, multibyte, rem) =>
          if c == 10 then none                     -- unescaped newline
          else
            let buf' := if r < 0x80 || !multibyte then buf ++ [UInt8.ofNat r] else buf ++ Utf8.encodeRune r
            if quote == 39 then
              -- single quoted strings must be a single character
              match rem with
              | q :: rest' => if q == quote then some (buf', rest') else none
              | [] => none
            else unquoteLoop fuel rem quote buf'

/-- strconv.Unquote(s) for a token that starts with ' or " (other first bytes: ErrSyntax) -/
def goUnquote (s : Bytes) : Option Bytes :=
  match s with
  | [] => none
  | [_] => none
  | quote :: body =>
    if quote == 96 then
      -- a raw string (cannot be an itemString; kept for completeness): no escapes, '\r' dropped
      match indexByte body 96 with
      | none => none
      | some endIdx =>
        if (body.drop (endIdx + 1)).isEmpty then some ((body.take endIdx).filter (· != 13)) else none
    else if quote != 34 && quote != 39 then none
    else
      -- optimistically find the terminating quote
      match indexByte body quote with
      | none => none
      | some endIdx =>
        let inner := body.take endIdx
        let fast : Option Bytes :=
          if !inner.contains 92 && !inner.contains 10 then
            if quote == 34 then (if validUtf8 inner.length inner then some inner else none)
            else
              let (r, n) := Utf8.decodeRune inner
              if n == inner.length && (r != Utf8.runeError || n != 1) then some inner else none
          else none
        match fast with
        | some out => if (body.drop (endIdx + 1)).isEmpty then some out else none
        | none =>
          match unquoteLoop (body.length + 1) body quote [] with
          | some (out, rem) => if rem.isEmpty then some out else none
          | none => none

/-! ## The tree the parser builds -/

mutual
  /-- `ast.Node` values built by the file parser -/
  inductive Node where
    | rawText (pos : Nat) (text : Bytes)
    | print (pos : Nat) (arg : Expr) (dirs : List Directive)
    | msg (pos : Nat) (meaning desc : Bytes) (body : Node)
    | css (pos : Nat) (expr : Option Expr) (suffix : Bytes)
    | debugger (pos : Nat)
    | log (pos : Nat) (body : Node)
    | ifc (pos : Nat) (conds : NodeList)
    | ifCond (pos : Nat) (cond : Option Expr) (body : Node)
    | forc (pos : Nat) (var : Bytes) (list : Expr) (body : Node) (ifEmpty : NodeList) -- [] = nil
    | switch (pos : Nat) (value : Expr) (cases : NodeList)
    | switchCase (pos : Nat) (values : List Expr) (body : Node)
    | call (pos : Nat) (name : Bytes) (allData : Bool) (data : Option Expr) (params : NodeList)
    | paramValue (pos : Nat) (key : Bytes) (e : Expr)
    | paramContent (pos : Nat) (key : Bytes) (body : Node)
    | letValue (pos : Nat) (name : Bytes) (e : Expr)
    | letContent (pos : Nat) (name : Bytes) (body : Node)
    | headerParam (pos : Nat) (optional : Bool) (name : Bytes) (typPos : Nat) (typ : Bytes) (dflt : Option Expr)
    | nspace (pos : Nat) (name : Bytes) (autoescape : Autoescape)
    | template (pos : Nat) (name : Bytes) (body : Node) (autoescape : Autoescape) (isPrivate : Bool)
    | soyDoc (pos : Nat) (params : List SoyDocParam)
    | list (pos : Nat) (nodes : NodeList)                                   -- *ast.ListNode
    | plural (pos : Nat) (value : Expr) (cases : NodeList) (dflt : Node)    -- *ast.MsgPluralNode
    | pluralCase (pos : Nat) (value : Int) (body : Node)
    | placeholder (pos : Nat) (body : Node)
    | htmlTag (pos : Nat) (text : Bytes)
  inductive NodeList where
    | nil
    | cons (n : Node) (rest : NodeList)
end

instance : Inhabited Node := ⟨.debugger 0⟩

def NodeList.toList : NodeList → List Node
  | .nil => []
  | .cons n r => n :: r.toList
def NodeList.ofList : List Node → NodeList
  | [] => .nil
  | n :: r => .cons n (NodeList.ofList r)
def NodeList.append : NodeList → NodeList → NodeList
  | .nil, b => b
  | .cons n r, b => .cons n (r.append b)
def NodeList.length : NodeList → Nat
  | .nil => 0
  | .cons _ r => r.length + 1

/-- `node.Position()` -/
def Node.pos : Node → Nat
  | .rawText p _ | .print p _ _ | .msg p _ _ _ | .css p _ _ | .debugger p | .log p _ | .ifc p _
  | .ifCond p _ _ | .forc p _ _ _ _ | .switch p _ _ | .switchCase p _ _ | .call p _ _ _ _
  | .paramValue p _ _ | .paramContent p _ _ | .letValue p _ _ | .letContent p _ _
  | .headerParam p _ _ _ _ _ | .nspace p _ _ | .template p _ _ _ _ | .soyDoc p _ | .list p _
  | .plural p _ _ _ | .pluralCase p _ _ | .placeholder p _ | .htmlTag p _ => p

/-! ### parseMsgRawText and placeholderize -/

def isAlnum (b : UInt8) : Bool :=
  (48 ≤ b.toNat && b.toNat ≤ 57) || (65 ≤ b.toNat && b.toNat ≤ 90) || (97 ≤ b.toNat && b.toNat ≤ 122)

/-- does `</?[a-zA-Z0-9]+[^>]*?>` match at the head of `s`?  If so, the length of the match
    (it ends at the first '>'). -/
def htmlTagAt (s : Bytes) : Option Nat :=
  match s with
  | 60 :: r =>
    let (skip, r') := match r with
      | 47 :: r2 => (1, r2)
      | _ => (0, r)
    match r' with
    | c :: r3 =>
      if isAlnum c then
        match indexByte r3 62 with
        | some k => some (1 + skip + 1 + k + 1)
        | none => none
      else none
    | [] => none
  | _ => none

/-- leftmost match of htmlTagRegexp in `s`: (start, end) -/
def findHtmlTag : Bytes → Nat → Option (Nat × Nat)
  | [], _ => none
  | b :: r, i =>
    match htmlTagAt (b :: r) with
    | some len => some (i, i + len)
    | none => findHtmlTag r (i + 1)

/-- `parseMsgRawText`: text and html-tag placeholder nodes of a raw text -/
def parseMsgRawText : Nat → Nat → Bytes → NodeList
  | 0, _, _ => .nil
  | fuel + 1, pos, txt =>
    if txt.isEmpty then .nil
    else
      let (start, stop) := match findHtmlTag txt 0 with
        | some (a, b) => (a, b)
        | none => (txt.length, txt.length)
      -- every piece keeps the position of the text it was cut from (/repo a9dace7)
      let out1 : NodeList :=
        if start > 0 then .cons (.rawText pos (txt.take start)) .nil else .nil
      let out2 : NodeList :=
        if stop > start then
          .cons (.placeholder pos (.htmlTag pos ((txt.drop start).take (stop - start)))) .nil
        else .nil
      (out1.append out2).append (parseMsgRawText fuel pos (txt.drop stop))

mutual
  /-- `placeholderize(parent)`; `none` = a failed type assertion (runtime panic) -/
  def placeholderize : Node → Option Node
    | .list pos nodes => (phChildren nodes).map (Node.list pos)
    | _ => none
  def phChildren : NodeList → Option NodeList
    | .nil => some .nil
    | .cons c rest =>
      match c with
      | .rawText pos text =>
        (phChildren rest).map fun r => (parseMsgRawText (text.length + 1) pos text).append r
      | .plural pos value cases dflt =>
        match phCases cases, placeholderize dflt, phChildren rest with
        | some cs, some d, some r => some (.cons (.plural pos value cs d) r)
        | _, _, _ => none
      | other => (phChildren rest).map fun r => .cons (.placeholder other.pos other) r
  def phCases : NodeList → Option NodeList
    | .nil => some .nil
    | .cons c rest =>
      match c with
      | .pluralCase pos v body =>
        match placeholderize body, phCases rest with
        | some b, some r => some (.cons (.pluralCase pos v b) r)
        | _, _ => none
      | _ => none
end

/-! ## Parser state and monad -/

inductive FErr where
  | err (pos : Nat)                    -- t.errorf at this byte position of the file
  | panic
  | fuelOut
  deriving Repr, DecidableEq, Inhabited

structure FState where
  p : PState
  /-- `t.namespace` -/
  ns : Bytes := []
  /-- `t.aliases`, latest binding first -/
  aliases : List (Bytes × Bytes) := []
  inmsg : Bool := false

abbrev FP := StateT FState (Except FErr)

def ffail {α : Type} (e : FErr) : FP α := fun _ => Except.error e

/-- run a token-level action of Model/Parser.lean on the embedded state -/
def liftP {α : Type} (x : P α) : FP α := fun st =>
  match x st.p with
  | .ok (a, p') => .ok (a, { st with p := p' })
  | .error (.err pos) => .error (.err pos)
  | .error .panic => .error .panic
  | .error .fuelOut => .error .fuelOut

def next : FP Item := liftP Parser.next
def backup : FP Unit := liftP Parser.backup
def backup2 (t1 : Item) : FP Unit := liftP (Parser.backup2 t1)
def peek : FP Item := liftP Parser.peek
def errorf {α : Type} : FP α := liftP Parser.errorf
def unexpected {α : Type} (tok : Item) : FP α := liftP (Parser.unexpected tok)
/-- `t.errorfAt(pos, …)`: an error that belongs to a node already parsed, at that node's position
    (`t.token[0], t.peekCount = item{pos: pos}, 0; t.errorf(…)`, /repo a4cef1c) -/
def errorfAt {α : Type} (pos : Nat) : FP α := fun _ => .error (.err pos)
def expect (t : ItemType) : FP Item := liftP (Parser.expect t)
def tail1 (s : Bytes) : FP Bytes := liftP (Parser.tail1 s)

/-- a Go map lookup `m[k]` -/
def lookup (m : List (Bytes × Bytes)) (k : Bytes) : Option Bytes := (m.find? (·.1 == k)).map (·.2)

section
variable (pf : Bytes → Option UInt64)
-- `ef`: fuel of the expression parser for the file's tokens
variable (ef : Nat)

def parseExpr0 : FP Expr := liftP (Parser.parseExpr pf ef 0)

mutual
  /-- `setPos(node, pos)`: the node and everything below it get the one position `pos` -/
  def reposition (p : Nat) : Expr → Expr
    | .null _ => .null p
    | .bool _ b => .bool p b
    | .int _ v => .int p v
    | .float _ f => .float p f
    | .str _ q v => .str p q v
    | .global _ n => .global p n
    | .func _ n args => .func p n (repositionList p args)
    | .list _ items => .list p (repositionList p items)
    | .map _ items => .map p (repositionMap p items)
    | .dataRef _ k acc => .dataRef p k (repositionAcc p acc)
    | .not _ a => .not p (reposition p a)
    | .neg _ a => .neg p (reposition p a)
    | .bin op _ a b => .bin op p (reposition p a) (reposition p b)
    | .tern _ c a b => .tern p (reposition p c) (reposition p a) (reposition p b)
  def repositionList (p : Nat) : ExprList → ExprList
    | .nil => .nil
    | .cons e r => .cons (reposition p e) (repositionList p r)
  def repositionMap (p : Nat) : MapItems → MapItems
    | .nil => .nil
    | .cons k e r => .cons k (reposition p e) (repositionMap p r)
  def repositionAcc (p : Nat) : AccessList → AccessList
    | .nil => .nil
    | .cons (.key _ ns k) r => .cons (.key p ns k) (repositionAcc p r)
    | .cons (.index _ ns i) r => .cons (.index p ns i) (repositionAcc p r)
    | .cons (.expr _ ns e) r => .cons (.expr p ns (reposition p e)) (repositionAcc p r)
end

/-- `parseQuotedExpr(str)`: a new lexer and a new parser; trailing tokens are drained.  The
    nested parser positions its nodes within `str`; the tree is moved (`setPos`) to the position
    of the enclosing parser's current token — the one `errorf` would report (/repo 4a8a189).  An
    error of the nested parser is re-raised by `t.errorf` at the CURRENT token position of the
    enclosing parser (the deferred recover of parseQuotedExpr); a runtime panic stays a panic. -/
def parseQuotedExpr (str : Bytes) : FP Expr := fun st =>
  match Lex.lexAll str true with
  | .panic => .error .panic
  | .fuelOut => .error .fuelOut
  | .items is =>
    match (Parser.parseExpr pf (Parser.fuelFor is.length) 0).run (Parser.initState is) with
    | .ok (e, _) =>
      match Parser.errPos st.p with
      | .ok p => .ok (reposition p e, st)
      | .error _ => .error .panic      -- `t.token[t.peekCount-1]` out of range
    | .error (.err _) => (errorf : FP Expr) st
    | .error .panic => .error .panic
    | .error .fuelOut => .error .fuelOut

/-- `rawtext(...)`; an out-of-range index inside it is a runtime panic -/
def rawtextP (s : Bytes) (tb ta : Bool) : FP Bytes :=
  match Model.rawtext s tb ta with
  | some b => pure b
  | none => ffail .panic

/-! ### loops without nested blocks -/

/-- `for token.typ == itemComment { token = t.next() }` -/
def skipComments : Nat → Item → FP Item
  | 0, _ => ffail .fuelOut
  | fuel + 1, token =>
    if token.typ == .tComment then do
      let t ← next
      skipComments fuel t
    else pure token

/-- `t.nextNonComment()` -/
def nextNonComment : Nat → FP Item
  | 0 => ffail .fuelOut
  | fuel + 1 => do
    let tok ← next
    if tok.typ != .tComment then pure tok else nextNonComment fuel

/-- the text-merging loop of textOrTag: (merged text, the first non-text token) -/
def collectText : Nat → Bytes → FP (Bytes × Item)
  | 0, _ => ffail .fuelOut
  | fuel + 1, text => do
    let nxt ← next
    if nxt.typ != .tText then pure (text, nxt)
    else collectText fuel (text ++ nxt.val)

/-- `parseAttrs(allowedNames...)`: the attribute map (latest binding first) -/
def parseAttrs (allowed : List Bytes) : Nat → List (Bytes × Bytes) → FP (List (Bytes × Bytes))
  | 0, _ => ffail .fuelOut
  | fuel + 1, result => do
    let tok ← next
    if tok.typ == .tIdent then
      if !allowed.contains tok.val then unexpected tok
      else do
        let _ ← expect .tEquals
        let attrval ← expect .tString
        match goUnquote attrval.val with
        | some v => parseAttrs allowed fuel ((tok.val, v) :: result.filter (·.1 != tok.val))
        | none => errorf
    else if tok.typ == .tRightDelim || tok.typ == .tRightDelimEnd then do
      backup
      pure result
    else unexpected tok

/-- the argument loop of a print directive -/
def directiveArgs : Nat → List Expr → FP (List Expr)
  | 0, _ => ffail .fuelOut
  | fuel + 1, args => do
    let nxt ← next
    if nxt.typ == .tColon || nxt.typ == .tComma then do
      let e ← parseExpr0 pf ef
      directiveArgs fuel (args ++ [e])
    else do
      backup
      pure args

/-- `parsePrint`: print has just been read (or inferred) -/
def printLoop (pos : Nat) (expr : Expr) : Nat → List Directive → FP Node
  | 0, _ => ffail .fuelOut
  | fuel + 1, dirs => do
    let tok ← next
    if tok.typ == .tRightDelim then pure (.print pos expr dirs)
    else if tok.typ == .tPipe then do
      let id ← expect .tIdent
      let args ← directiveArgs pf ef fuel []
      printLoop pos expr fuel (dirs ++ [{ pos := tok.pos, name := id.val, args := args }])
    else unexpected tok

def parsePrint (fuel : Nat) (token : Item) : FP Node := do
  let expr ← parseExpr0 pf ef
  printLoop pf ef token.pos expr fuel []

/-- `parseAlias`: "alias" has just been read -/
def aliasLoop : Nat → Bytes → Bytes → FP Unit
  | 0, _, _ => ffail .fuelOut
  | fuel + 1, name, lastSegment => do
    let nxt ← next
    if nxt.typ == .tDotIdent then do
      let seg ← tail1 nxt.val
      aliasLoop fuel (name ++ nxt.val) seg
    else if nxt.typ == .tRightDelim then
      modify fun s => { s with aliases := (lastSegment, name) :: s.aliases.filter (·.1 != lastSegment) }
    else unexpected nxt

def parseAlias (fuel : Nat) : FP Unit := do
  let name ← expect .tIdent
  aliasLoop fuel name.val name.val

/-- `parseSoyDoc` -/
def soyDocLoop (pos : Nat) : Nat → List SoyDocParam → FP Node
  | 0, _ => ffail .fuelOut
  | fuel + 1, params => do
    let nxt ← next
    if nxt.typ == .tText then soyDocLoop pos fuel params
    else if nxt.typ == .tSoyDocOptionalParam || nxt.typ == .tSoyDocParam then do
      let ident ← expect .tIdent
      soyDocLoop pos fuel (params ++ [{ pos := nxt.pos, name := ident.val, optional := nxt.typ == .tSoyDocOptionalParam }])
    else if nxt.typ == .tSoyDocEnd then pure (.soyDoc pos params)
    else unexpected nxt

/-- `parseAutoescape` -/
def parseAutoescape (attrs : List (Bytes × Bytes)) : FP Autoescape :=
  let val := (lookup attrs [97,117,116,111,101,115,99,97,112,101]).getD []   -- attrs["autoescape"]
  if val == [] then pure .unspecified
  else if val == [99,111,110,116,101,120,116,117,97,108] then pure .contextual                 -- "contextual"
  else if val == [100,101,112,114,101,99,97,116,101,100,45,99,111,110,116,101,120,116,117,97,108] then
    pure .contextual                                                                           -- "deprecated-contextual"
  else if val == [116,114,117,101] then pure .on                                               -- "true"
  else if val == [102,97,108,115,101] then pure .off                                           -- "false"
  else errorf

/-- `boolAttr` -/
def boolAttr (attrs : List (Bytes × Bytes)) (key : Bytes) (dflt : Bool) : FP Bool :=
  match lookup attrs key with
  | none => pure dflt
  | some str =>
    if str == [116,114,117,101] then pure true
    else if str == [102,97,108,115,101] then pure false
    else errorf

def kAutoescape : Bytes := [97,117,116,111,101,115,99,97,112,101]
def kPrivate : Bytes := [112,114,105,118,97,116,101]
def kKind : Bytes := [107,105,110,100]
def kName : Bytes := [110,97,109,101]
def kData : Bytes := [100,97,116,97]
def kKey : Bytes := [107,101,121]
def kValue : Bytes := [118,97,108,117,101]
def kDesc : Bytes := [100,101,115,99]
def kMeaning : Bytes := [109,101,97,110,105,110,103]
def kHidden : Bytes := [104,105,100,100,101,110]
def kAll : Bytes := [97,108,108]
def kIn : Bytes := [105,110]

/-- `parseNamespace` -/
def namespaceLoop (pos : Nat) : Nat → Bytes → FP Node
  | 0, _ => ffail .fuelOut
  | fuel + 1, name => do
    let part ← next
    if part.typ == .tDotIdent then namespaceLoop pos fuel (name ++ part.val)
    else do
      backup
      let attrs ← parseAttrs [kAutoescape] fuel []
      let ae ← parseAutoescape attrs
      let _ ← expect .tRightDelim
      modify fun s => { s with ns := name }
      pure (.nspace pos name ae)

def parseNamespace (fuel : Nat) (token : Item) : FP Node := do
  let st ← get
  if st.ns != [] then errorf
  else do
    let name ← expect .tIdent
    namespaceLoop token.pos fuel name.val

/-- `parseHeaderParam` -/
def parseHeaderParam (token : Item) : FP Node := do
  let opt := token.typ == .tHeaderOptionalParam
  let name ← expect .tIdent
  let _ ← expect .tColon
  let typ ← expect .tHeaderParamType
  let tok ← next
  let defval ← (if tok.typ == .tEquals then do
      let e ← parseExpr0 pf ef
      pure (some e)
    else do
      backup
      pure none : FP (Option Expr))
  let _ ← expect .tRightDelim
  pure (.headerParam token.pos opt name.val typ.pos typ.val defval)

/-- `parseCss`: "css" has just been read -/
def parseCss (token : Item) : FP Node := do
  let cmdText ← expect .tText
  let _ ← expect .tRightDelim
  match lastIndexByte cmdText.val 44 with
  | none => pure (.css token.pos none (trimSpace cmdText.val))
  | some lastComma => do
    let exprText := trimSpace (cmdText.val.take lastComma)
    let e ← parseQuotedExpr pf exprText
    pure (.css token.pos (some e) (trimSpace (cmdText.val.drop (lastComma + 1))))

/-- the dotted-name loop of parseCall: `for tokn := t.next(); tokn.typ == itemDotIdent; tokn = t.next()` -/
def callNameLoop : Nat → Bytes → FP Bytes
  | 0, _ => ffail .fuelOut
  | fuel + 1, name => do
    let tokn ← next
    if tokn.typ == .tDotIdent then callNameLoop fuel (name ++ tokn.val)
    else do
      backup
      pure name

/-- parseCall up to (not including) the closing of the tag: (template name, allData, data) -/
def parseCallHead (fuel : Nat) : FP (Bytes × Bool × Option Expr) := do
  let tok ← next
  let templateName ← (if tok.typ == .tDotIdent then pure tok.val
    else if tok.typ == .tIdent then do
      -- this ident could either be {call fully.qualified.name} or attributes.
      let tok2 ← next
      if tok2.typ == .tDotIdent then callNameLoop fuel (tok.val ++ tok2.val)
      else do
        backup2 tok
        pure []
    else do
      backup
      pure [] : FP Bytes)
  let attrs ← parseAttrs [kName, kData] fuel []
  let templateName := if templateName == [] then (lookup attrs kName).getD [] else templateName
  if templateName == [] then errorf
  else do
    let st ← get
    -- If it's not a fully qualified template name, apply the namespace or aliases
    let templateName ← (match templateName with
      | [] => ffail .panic    -- templateName[0]
      | c :: _ =>
        if c == 46 then pure (st.ns ++ templateName)
        else match indexByte templateName 46 with
          | some dot =>
            match lookup st.aliases (templateName.take dot) with
            | some alias => pure (alias ++ templateName.drop dot)
            | none => pure templateName
          | none => pure templateName : FP Bytes)
    match lookup attrs kData with
    | some data =>
      if data == kAll then pure (templateName, true, none)
      else do
        let e ← parseQuotedExpr pf data
        pure (templateName, false, some e)
    | none => pure (templateName, false, none)

/-! ### the mutually recursive block structure -/

/-- the plural cases of parsePlural: (cases, default) from the switch cases -/
def pluralCases : NodeList → NodeList → Option Node → FP (NodeList × Option Node)
  | .nil, cases, dflt => pure (cases, dflt)
  | .cons c rest, cases, dflt =>
    match c with
    | .switchCase pos values body =>
      match values with
      | [] => pluralCases rest cases (some body)      -- node.Body.(ast.ParentNode): always a *ListNode
      | v :: more =>
        match v, more with
        | .int _ n, [] => pluralCases rest (cases.append (.cons (.pluralCase pos n body) .nil)) dflt
        | _, _ => errorfAt pos      -- "plural case must be a single integer", at the case node
    | _ => ffail .panic

mutual
  /-- `itemList(untl...)`: the loop; `list` = nodes so far, `lpos` = list.Pos once set -/
  def itemListLoop : Nat → List ItemType → Option Nat → NodeList → FP Node
    | 0, _, _, _ => ffail .fuelOut
    | fuel + 1, untl, lpos, nodes => do
      let token ← next
      let lpos' := lpos.getD token.pos
      let (node, halt) ← textOrTag fuel token untl
      if halt then pure (.list lpos' nodes)
      else
        match node with
        | some n => itemListLoop fuel untl (some lpos') (nodes.append (.cons n .nil))
        | none => itemListLoop fuel untl (some lpos') nodes

  /-- `textOrTag(token, untl)` -/
  def textOrTag : Nat → Item → List ItemType → FP (Option Node × Bool)
    | 0, _, _ => ffail .fuelOut
    | fuel + 1, token, untl => do
      let seenComment := token.typ == .tComment
      let token ← skipComments fuel token
      -- 1. We found the until token (e.g. EOF)
      if untl.contains token.typ then pure (none, true)
      else do
        -- 2. The until token is a command, e.g. {else} {/template}
        let token2 ← next
        if token.typ == .tLeftDelim && untl.contains token2.typ then pure (none, true)
        else do
          backup
          if token.typ == .tText then do
            let (text, nxt) ← collectText fuel token.val
            backup
            let textvalue ← rawtextP text seenComment (nxt.typ == .tComment)
            if textvalue.isEmpty then pure (none, false)
            else pure (some (.rawText token.pos textvalue), false)
          else if token.typ == .tLeftDelim then do
            let n ← beginTag fuel
            pure (n, false)
          else if token.typ == .tSoyDocStart then do
            let n ← soyDocLoop token.pos fuel []
            pure (some n, false)
          else unexpected token

  /-- `beginTag`: { already read.  `none` = the nil node of {alias} -/
  def beginTag : Nat → FP (Option Node)
    | 0 => ffail .fuelOut
    | fuel + 1 => do
      let token ← next
      let notmsg : FP Unit := do
        let st ← get
        if st.inmsg then unexpected token else pure ()
      match token.typ with
      | .tNamespace => do pure (some (← parseNamespace fuel token))
      | .tTemplate => do pure (some (← parseTemplate fuel token))
      | .tHeaderParam | .tHeaderOptionalParam => do pure (some (← parseHeaderParam pf ef token))
      | .tIf => do
        notmsg
        pure (some (← ifLoop fuel token.pos false .nil))
      | .tMsg => do
        notmsg
        pure (some (← parseMsg fuel token))
      | .tPlural => do pure (some (← parsePlural fuel token))
      | .tForeach | .tFor => do
        notmsg
        pure (some (← parseFor fuel token))
      | .tSwitch => do
        notmsg
        pure (some (← parseSwitch fuel token .tSwitchEnd))
      | .tCall => do pure (some (← parseCall fuel token))
      | .tLiteral => do
        let _ ← expect .tRightDelim
        -- an empty literal block has no text token: the nil node (/repo aea8825; it was `expect(itemText)`)
        let literalText ← next
        let n ← (if literalText.typ == .tText then pure (some (.rawText literalText.pos literalText.val))
          else do
            backup
            pure none : FP (Option Node))
        let _ ← expect .tLeftDelim
        let _ ← expect .tLiteralEnd
        let _ ← expect .tRightDelim
        pure n
      | .tCss => do pure (some (← parseCss pf token))
      | .tLog => do
        let _ ← expect .tRightDelim
        let logBody ← itemListLoop fuel [.tLogEnd] none .nil
        let _ ← expect .tRightDelim
        pure (some (.log token.pos logBody))
      | .tDebugger => do
        let _ ← expect .tRightDelim
        pure (some (.debugger token.pos))
      | .tLet => do pure (some (← parseLet fuel token))
      | .tAlias => do
        parseAlias fuel
        pure none
      | .tNil | .tSpace | .tTab | .tNewline | .tCarriageReturn | .tLeftBrace | .tRightBrace => do
        let _ ← expect .tRightDelim
        let text := ((Gen.ParseTables.specialChars.find? (·.1 == token.typ)).map (·.2)).getD []
        pure (some (.rawText token.pos text))
      | .tIdent | .tDollarIdent | .tNull | .tBool | .tFloat | .tInteger | .tString | .tNegate | .tNot
      | .tLeftBracket | .tLeftParen => do
        -- print is implicit, so the tag may also begin with any value type or unary op.
        backup
        pure (some (← parsePrint pf ef fuel token))
      | .tPrint => do pure (some (← parsePrint pf ef fuel token))
      | _ => unexpected token

  /-- `parseTemplate` -/
  def parseTemplate : Nat → Item → FP Node
    | 0, _ => ffail .fuelOut
    | fuel + 1, token => do
      let id ← expect .tDotIdent
      let attrs ← parseAttrs [kAutoescape, kPrivate, kKind] fuel []
      let ae ← parseAutoescape attrs
      let priv ← boolAttr attrs kPrivate false
      let _ ← expect .tRightDelim
      -- `&ast.TemplateNode{token.pos, t.namespace + id.val, t.itemList(itemTemplateEnd), …}`: the Go
      -- spec leaves the order of the read of `t.namespace` and the call `t.itemList` open; the gc
      -- compiler performs the call first, so a {namespace} tag inside the body (possible only while
      -- the file has no namespace yet) already applies to this template's own name.
      let body ← itemListLoop fuel [.tTemplateEnd] none .nil
      let st ← get
      let _ ← expect .tRightDelim
      pure (.template token.pos (st.ns ++ id.val) body ae priv)

  /-- `parseLet`: "let" has just been read -/
  def parseLet : Nat → Item → FP Node
    | 0, _ => ffail .fuelOut
    | fuel + 1, token => do
      let name ← expect .tDollarIdent
      let pk ← peek
      if pk.typ == .tColon then do
        let _ ← next
        let nm ← tail1 name.val
        let e ← parseExpr0 pf ef
        let _ ← expect .tRightDelimEnd
        pure (.letValue token.pos nm e)
      else do
        let _ ← parseAttrs [kKind] fuel []
        let nxt ← next
        if nxt.typ == .tRightDelim then do
          let nm ← tail1 name.val
          let body ← itemListLoop fuel [.tLetEnd] none .nil
          let _ ← expect .tRightDelim
          pure (.letContent token.pos nm body)
        else unexpected nxt

  /-- `parseIf`: the loop; "if" has just been read -/
  def ifLoop : Nat → Nat → Bool → NodeList → FP Node
    | 0, _, _, _ => ffail .fuelOut
    | fuel + 1, pos, isElse, conds => do
      let condExpr ← (if !isElse then do
          let e ← parseExpr0 pf ef
          pure (some e)
        else pure none : FP (Option Expr))
      let _ ← expect .tRightDelim
      let body ← itemListLoop fuel [.tElseif, .tElse, .tIfEnd] none .nil
      let conds := conds.append (.cons (.ifCond pos condExpr body) .nil)
      backup
      let t ← next
      -- a second {else}, or an {elseif} behind the {else}, is rejected (/repo d0c22f5)
      if t.typ == .tElseif then (if isElse then unexpected t else ifLoop fuel pos isElse conds)
      else if t.typ == .tElse then (if isElse then unexpected t else ifLoop fuel pos true conds)
      else if t.typ == .tIfEnd then do
        let _ ← expect .tRightDelim
        pure (.ifc pos conds)
      else ifLoop fuel pos isElse conds -- the switch has no default: the loop goes round again

  /-- `parseFor`: "for" or "foreach" has just been read -/
  def parseFor : Nat → Item → FP Node
    | 0, _ => ffail .fuelOut
    | fuel + 1, token => do
      let vartoken ← expect .tDollarIdent
      let intoken ← expect .tIdent
      if intoken.val != kIn then unexpected intoken
      else do
        let collection ← parseExpr0 pf ef
        let _ ← expect .tRightDelim
        let body ← itemListLoop fuel [.tIfempty, .tForeachEnd, .tForEnd] none .nil
        backup
        let t ← next
        let ifempty ← (if t.typ == .tIfempty then do
            let _ ← expect .tRightDelim
            let b ← itemListLoop fuel [.tForeachEnd, .tForEnd] none .nil
            pure (NodeList.cons b .nil)
          else pure .nil : FP NodeList)
        let _ ← expect .tRightDelim
        let v ← tail1 vartoken.val
        pure (.forc token.pos v collection body ifempty)

  /-- `parseSwitch(token, end)`: "switch" (or "plural") has just been read -/
  def parseSwitch : Nat → Item → ItemType → FP Node
    | 0, _, _ => ffail .fuelOut
    | fuel + 1, token, endT => do
      let switchValue ← parseExpr0 pf ef
      let _ ← expect .tRightDelim
      switchLoop fuel token.pos switchValue endT false .nil

  /-- the loop of `parseSwitch`; `sawDefault`: a {default} has been read (a second one is rejected,
      /repo d0c22f5) -/
  def switchLoop : Nat → Nat → Expr → ItemType → Bool → NodeList → FP Node
    | 0, _, _, _, _, _ => ffail .fuelOut
    | fuel + 1, pos, value, endT, sawDefault, cases => do
      let tok ← next
      if tok.typ == .tLeftDelim then switchLoop fuel pos value endT sawDefault cases
      else if tok.typ == .tText then
        -- ignore spaces between tags. text is an error though (reported at the text, /repo ac1c871).
        if allSpace tok.val then switchLoop fuel pos value endT sawDefault cases else unexpected (atTextStart tok)
      else if tok.typ == .tCase || tok.typ == .tDefault then
        if tok.typ == .tDefault && sawDefault then unexpected tok
        else do
          let c ← caseLoop fuel tok []
          switchLoop fuel pos value endT (sawDefault || tok.typ == .tDefault) (cases.append (.cons c .nil))
      else if tok.typ == endT then do
        let _ ← expect .tRightDelim
        pure (.switch pos value cases)
      else if tok.typ == .tComment then switchLoop fuel pos value endT sawDefault cases
      else unexpected tok

  /-- `parseCase`: "case" (or "default") has just been read -/
  def caseLoop : Nat → Item → List Expr → FP Node
    | 0, _, _ => ffail .fuelOut
    | fuel + 1, token, values => do
      let values ← (if token.typ != .tDefault then do
          let e ← parseExpr0 pf ef
          pure (values ++ [e])
        else pure values : FP (List Expr))
      let tok ← next
      if tok.typ == .tComma then caseLoop fuel token values
      else if tok.typ == .tRightDelim then do
        let body ← itemListLoop fuel [.tCase, .tDefault, .tSwitchEnd, .tPluralEnd] none .nil
        backup
        pure (.switchCase token.pos values body)
      else unexpected tok

  /-- `parseCall`: "call" has just been read -/
  def parseCall : Nat → Item → FP Node
    | 0, _ => ffail .fuelOut
    | fuel + 1, token => do
      let (templateName, allData, dataNode) ← parseCallHead pf fuel
      let tok ← next
      if tok.typ == .tRightDelimEnd then pure (.call token.pos templateName allData dataNode .nil)
      else if tok.typ == .tRightDelim then do
        let body ← callParamsLoop fuel .nil
        let _ ← expect .tLeftDelim
        let _ ← expect .tCallEnd
        let _ ← expect .tRightDelim
        pure (.call token.pos templateName allData dataNode body)
      else unexpected tok

  /-- `parseCallParams`: the closing delimiter of the {call} has just been read -/
  def callParamsLoop : Nat → NodeList → FP NodeList
    | 0, _ => ffail .fuelOut
    | fuel + 1, params => do
      let initial ← nextNonComment fuel
      let initial ← orphanLoop fuel initial
      if initial.typ != .tLeftDelim then unexpected initial
      else do
        let cmd ← next
        if cmd.typ == .tCallEnd then do
          backup2 initial
          pure params
        else if cmd.typ != .tParam then errorf
        else do
          let firstIdent ← expect .tIdent
          let tok ← next
          if tok.typ == .tColon then do
            let value ← parseExpr0 pf ef
            let _ ← expect .tRightDelimEnd
            callParamsLoop fuel (params.append (.cons (.paramValue initial.pos firstIdent.val value) .nil))
          else if tok.typ == .tRightDelim then do
            let value ← itemListLoop fuel [.tParamEnd] none .nil
            let _ ← expect .tRightDelim
            callParamsLoop fuel (params.append (.cons (.paramContent initial.pos firstIdent.val value) .nil))
          else do
            let key ← (if tok.typ == .tIdent then do
                backup
                pure firstIdent.val
              else if tok.typ == .tEquals then do
                backup2 firstIdent
                pure []
              else unexpected tok : FP Bytes)
            let attrs ← parseAttrs [kKey, kValue, kKind] fuel []
            let key ← (if key == [] then
                match lookup attrs kKey with
                | some k => pure k
                | none => errorf
              else pure key : FP Bytes)
            match lookup attrs kValue with
            | none => do
              let _ ← expect .tRightDelim
              let value ← itemListLoop fuel [.tParamEnd] none .nil
              let _ ← expect .tRightDelim
              callParamsLoop fuel (params.append (.cons (.paramContent initial.pos key value) .nil))
            | some valueStr => do
              let value ← parseQuotedExpr pf valueStr
              let _ ← expect .tRightDelimEnd
              callParamsLoop fuel (params.append (.cons (.paramValue initial.pos key value) .nil))

  /-- `for initial.typ == itemText { … }` of parseCallParams: content is not allowed outside a
      param, but it's ok if it's a comment (nothing left after rawtext) -/
  def orphanLoop : Nat → Item → FP Item
    | 0, _ => ffail .fuelOut
    | fuel + 1, initial =>
      if initial.typ == .tText then do
        let text ← rawtextP initial.val true true
        if !text.isEmpty then unexpected (atTextStart initial)   -- at the stray text, not at its end (/repo ac1c871)
        else do
          let nxt ← nextNonComment fuel
          orphanLoop fuel nxt
      else pure initial

  /-- `parseMsg`: "msg" has just been read -/
  def parseMsg : Nat → Item → FP Node
    | 0, _ => ffail .fuelOut
    | fuel + 1, token => do
      let attrs ← parseAttrs [kDesc, kMeaning, kHidden] fuel []
      match lookup attrs kDesc with
      | none => errorf
      | some desc => do
        let _ ← expect .tRightDelim
        -- Parse the message body.
        modify fun s => { s with inmsg := true }
        let contents ← itemListLoop fuel [.tMsgEnd] none .nil
        modify fun s => { s with inmsg := false }
        -- Replace children nodes with placeholders.
        match placeholderize contents with
        | none => ffail .panic
        | some body =>
          -- Validate: if there's a plural tag, it should be the only child
          let children := match body with
            | .list _ ns => ns.toList
            | _ => []
          let hasPlural := children.any fun c => match c with
            | .plural .. => true
            | _ => false
          -- (found once the whole message has been read: reported at the {msg}, /repo ac1c871)
          if hasPlural && children.length != 1 then errorfAt token.pos
          else do
            let _ ← expect .tRightDelim
            pure (.msg token.pos ((lookup attrs kMeaning).getD []) desc body)

  /-- `parsePlural`: "plural" has just been read -/
  def parsePlural : Nat → Item → FP Node
    | 0, _ => ffail .fuelOut
    | fuel + 1, tok => do
      let st ← get
      if !st.inmsg then unexpected tok
      else do
        -- plural and switch nodes have the same structure.
        let sw ← parseSwitch fuel tok .tPluralEnd
        match sw with
        | .switch pos value cases => do
          let (pcs, dflt) ← pluralCases cases .nil none
          match dflt with
          | none => errorfAt pos    -- "{default} case required", at the plural node
          | some d => pure (.plural pos value pcs d)
        | _ => ffail .panic
end

/-- fuel of the file parser for `n` tokens -/
def fuelFor (n : Nat) : Nat := 8 * n + 64

/-- `parse.SoyFile(name, text)` on the item list of `lex(name, text)`: the body nodes, or the
    error.  A Go runtime panic is re-panicked by `tree.recover` (`panic`). -/
def parseFile (items : List Item) : Except FErr (List Node) :=
  let init : FState := { p := Parser.initState items }
  match (itemListLoop pf ef (fuelFor items.length) [.tEOF] none .nil).run init with
  | .ok (.list _ nodes, _) => .ok nodes.toList
  | .ok (_, _) => .error .panic
  | .error e => .error e

/-- What a caller of `parse.SoyFile` can observe about the lexer goroutine it started:
    * `drainCalled` — `t.lex.drain()` ran: in `tree.recover` on every error except a Go runtime
      error, which it re-panics BEFORE draining, and (since /repo d0c22f5) in `SoyFile` itself
      after a successful parse;
    * `received` — how many items the parser took from the channel (known on success);
    * `drained` — the lexer goroutine can finish: drained, or every item was received. -/
structure FileOutcome where
  result : Except FErr (List Node)
  drainCalled : Bool
  received : Nat
  drained : Bool

def fileEntry (items : List Item) : FileOutcome :=
  let init : FState := { p := Parser.initState items }
  match (itemListLoop pf ef (fuelFor items.length) [.tEOF] none .nil).run init with
  | .ok (.list _ nodes, st) =>
    -- `t.lex.drain()` before `t.lex = nil` (/repo d0c22f5): the scanner is gone when SoyFile returns
    { result := .ok nodes.toList, drainCalled := true, received := items.length - st.p.rest.length,
      drained := true }
  | .ok (_, _) => { result := .error .panic, drainCalled := false, received := 0, drained := false }
  | .error (.err p) => { result := .error (.err p), drainCalled := true, received := 0, drained := true }
  | .error .panic => { result := .error .panic, drainCalled := false, received := 0, drained := false }
  | .error .fuelOut => { result := .error .fuelOut, drainCalled := false, received := 0, drained := false }

/-- What `parseQuotedExpr(str)` does with the NESTED lexer goroutine it starts
    (`lexExpr("", str)`): `defer tt.lex.drain()` runs on every way out — a tree, an error of
    the nested parser (re-raised in the enclosing parser), even a runtime panic. -/
structure QuotedOutcome where
  result : Except PErr Expr
  drainCalled : Bool

def quotedEntry (items : List Item) : QuotedOutcome :=
  match (Parser.parseExpr pf (Parser.fuelFor items.length) 0).run (Parser.initState items) with
  | .ok (e, _) => { result := .ok e, drainCalled := true }
  | .error e => { result := .error e, drainCalled := true }

end

/-- the default fuel of the embedded expression parser -/
def exprFuel (items : List Item) : Nat := Parser.fuelFor items.length

/-- `parse.SoyFile(name, input)`: the lexer model composed with the parser model -/
def parseSource (pf : Bytes → Option UInt64) (input : Bytes) : Except FErr (List Node) :=
  match Lex.lexAll input false with
  | .items is => parseFile pf (exprFuel is) is
  | .panic => .error .panic
  | .fuelOut => .error .fuelOut

/-- `strconv.ParseFloat(tok.val, 64)` on a float token through the soft-float of Base/F64.lean
    (`F64.parseDecimal`, tied to strconv by the C20f64 op `f64parse`): the bits, or `none` for a
    range error (overflow to ±Inf).  This is the `pf` the protocol operations use, so the
    parser correspondences need no float bits from the harness. -/
def parseFloat64 (s : Bytes) : Option UInt64 :=
  let (neg, digits) := match s with
    | 45 :: r => (true, r)
    | 43 :: r => (false, r)
    | r => (false, r)
  match F64.parseDecimal digits with
  | some f => if f.isInf then none else some (if neg then (F64.neg f).bits else f.bits)
  | none => none

/-- `parse.SoyFile(name, input)` with Go's float parsing: the whole front end as one function -/
def soyFile (input : Bytes) : Except FErr (List Node) := parseSource parseFloat64 input

end SoyVerif.Model.FileParser
