/-
  Model of /repo/data/convert.go: `data.NewWith(options, value)` and `StructOptions.Data`.

  `GoVal` describes the *contents of an `interface{}`* handed to `NewWith` as far as reflection can
  see it.  Conventions:
  * `iface g` is an interface-typed holder (slice element, map value, struct field, pointee) containing
    `g`; storing it into the `interface{}` argument makes the layer disappear, so it only matters
    under `ptr` (`*interface{}`).
  * `value v` is an existing `data.Value` (one of the eight value types of value.go) held in an
    interface.  `ptr (value v)` denotes a pointer to an *interface cell* holding `v` (`*data.Value`,
    `*interface{}`).  A pointer to a concrete value type (`*data.Int`) is NOT expressible: such a
    pointer itself implements `data.Value`, `NewWith` returns it unchanged, and the result is none of
    the eight value types (see the report: equality on it is not symmetric).
  * `marshaler ptrRecv result under`: a value of a type with a `MarshalValue` method returning
    `result` (non-nil), whose reflect structure is `under`.  With a pointer receiver only `*T` is a
    `Marshaler`.  `nilMarshalerPtr` is a nil `*T` of such a type: it converts to null (the nil-pointer test comes
    before the Marshaler test; it used to call the method through the nil pointer and panic).
  * `time s` is a `time.Time` whose `Format(options.TimeFormat)` is `s`.
  * `keyedMap n` is a map whose key kind is not `String`, with `n` entries.
  * `unsupported` stands for every other kind (chan, func, complex, array, uintptr, unsafe pointer).

  `none` is a panic.  Fresh lists and maps get fresh identities from a counter (see Model/Value.lean
  for the identity convention: nil = 0, every empty non-nil list = 1).
-/
import SoyVerif.Model.Value
import SoyVerif.Gen.ToLower

namespace SoyVerif

inductive IntKind where
  | int | int8 | int16 | int32 | int64
deriving DecidableEq, Repr

inductive UintKind where
  | uint | uint8 | uint16 | uint32 | uint64
deriving DecidableEq, Repr

inductive GoVal where
  | nil
  | bool (b : Bool)
  | int (k : IntKind) (i : Int64)          -- `v.Int()`
  | uint (k : UintKind) (u : UInt64)       -- `v.Uint()`
  | float32 (f : F64)                      -- `v.Float()` of a float32: the widened value
  | float64 (f : F64)
  | string (s : Bytes)
  | time (formatted : Bytes)
  | slice (xs : List GoVal)
  | nilSlice
  | strMap (kvs : List (Bytes × GoVal))
  | nilMap
  | keyedMap (n : Nat)
  | struct (fields : List (Bytes × Bool × GoVal))   -- name, CanInterface (exported), value
  | ptr (g : GoVal)
  | nilPtr
  | iface (g : GoVal)
  | value (v : Value)
  | marshaler (ptrRecv : Bool) (result : Value) (under : GoVal)
  | nilMarshalerPtr
  | unsupported

namespace Convert

/-! ### runes: `utf8.DecodeRuneInString`, `unicode.ToLower`, `string(rune)` -/

def isCont (b : UInt8) : Bool := 128 ≤ b && b ≤ 191

/-- `utf8.DecodeRuneInString`: rune and width (RuneError = 0xFFFD; width 0 on empty, 1 on invalid) -/
def decodeRune : Bytes → Nat × Nat
  | [] => (65533, 0)
  | b0 :: r =>
    if b0 < 128 then (b0.toNat, 1)
    else if 194 ≤ b0 && b0 ≤ 223 then
      match r with
      | b1 :: _ => if isCont b1 then ((b0.toNat - 192) * 64 + (b1.toNat - 128), 2) else (65533, 1)
      | _ => (65533, 1)
    else if 224 ≤ b0 && b0 ≤ 239 then
      match r with
      | b1 :: b2 :: _ =>
        let lo : UInt8 := if b0 == 224 then 160 else 128
        let hi : UInt8 := if b0 == 237 then 159 else 191
        if lo ≤ b1 && b1 ≤ hi && isCont b2 then
          ((b0.toNat - 224) * 4096 + (b1.toNat - 128) * 64 + (b2.toNat - 128), 3)
        else (65533, 1)
      | _ => (65533, 1)
    else if 240 ≤ b0 && b0 ≤ 244 then
      match r with
      | b1 :: b2 :: b3 :: _ =>
        let lo : UInt8 := if b0 == 240 then 144 else 128
        let hi : UInt8 := if b0 == 244 then 143 else 191
        if lo ≤ b1 && b1 ≤ hi && isCont b2 && isCont b3 then
          ((b0.toNat - 240) * 262144 + (b1.toNat - 128) * 4096 + (b2.toNat - 128) * 64 + (b3.toNat - 128), 4)
        else (65533, 1)
      | _ => (65533, 1)
    else (65533, 1)

/-- `string(rune)` -/
def encodeRune (r : Nat) : Bytes :=
  if r < 128 then [UInt8.ofNat r]
  else if r < 2048 then [UInt8.ofNat (192 + r / 64), UInt8.ofNat (128 + r % 64)]
  else if (55296 ≤ r ∧ r ≤ 57343) ∨ 1114111 < r then [239, 191, 189]
  else if r < 65536 then [UInt8.ofNat (224 + r / 4096), UInt8.ofNat (128 + r / 64 % 64), UInt8.ofNat (128 + r % 64)]
  else [UInt8.ofNat (240 + r / 262144), UInt8.ofNat (128 + r / 4096 % 64), UInt8.ofNat (128 + r / 64 % 64),
        UInt8.ofNat (128 + r % 64)]

def lookupLower : List (Nat × Nat × Nat) → Nat → Nat
  | [], r => r
  | (lo, hi, target) :: rest, r => if lo ≤ r ∧ r ≤ hi then target + (r - lo) else lookupLower rest r

/-- `unicode.ToLower`: ASCII by the rule, everything else by the table generated from the Go toolchain
    (`Gen.toLowerRanges`: runs `[lo,hi]` mapped to `target + (r - lo)`). -/
def toLower (r : Nat) : Nat :=
  if r < 128 then (if 65 ≤ r ∧ r ≤ 90 then r + 32 else r)
  else lookupLower Gen.toLowerRanges r

/-- the key of a struct field under `LowerCamel` (convert.go:108-111) -/
def lowerFirst (name : Bytes) : Bytes :=
  let (r, size) := decodeRune name
  encodeRune (toLower r) ++ name.drop size

def fieldKey (lowerCamel : Bool) (name : Bytes) : Bytes :=
  if lowerCamel then lowerFirst name else name

/-! ### identities occurring in the input -/

mutual
def maxId : GoVal → Nat
  | .slice xs => maxIdList xs
  | .strMap kvs => maxIdKvs kvs
  | .struct fs => maxIdFields fs
  | .ptr g => maxId g
  | .iface g => maxId g
  | .value v => v.maxId
  | .marshaler _ r u => max r.maxId (maxId u)
  | _ => 0
def maxIdList : List GoVal → Nat
  | [] => 0
  | x :: xs => max (maxId x) (maxIdList xs)
def maxIdKvs : List (Bytes × GoVal) → Nat
  | [] => 0
  | (_, v) :: r => max (maxId v) (maxIdKvs r)
def maxIdFields : List (Bytes × Bool × GoVal) → Nat
  | [] => 0
  | (_, _, v) :: r => max (maxId v) (maxIdFields r)
end

/-- identity of a freshly made `List` of the given length when the allocation counter is `n` -/
def listId (len n : Nat) : Nat := if len == 0 then 1 else n

/-! ### NewWith -/

/-- kind switch on an existing `data.Value` reached by drilling through a pointer to an interface:
    its Go representation is an int64 / float64 / bool / string / slice / map / empty struct. -/
def convValueRepr (v : Value) (n : Nat) : Value × Nat :=
  match v with
  | .undefined => (.map n [], n + 1)           -- struct{} : no fields
  | .null => (.map n [], n + 1)
  | .bool b => (.bool b, n)
  | .int i => (.int i, n)
  | .float f => (.float f, n)
  | .str s => (.str s, n)
  | .list id xs => if id == 0 then (.list 0 [], n) else (.list (listId xs.length n) xs, n + 1)
  | .map _ kvs => (.map n kvs, n + 1)          -- also for the nil map: `make(Map, 0)`

mutual
/-- `NewWith(options, value)` with allocation counter `n` -/
def convM (lc : Bool) : GoVal → Nat → Option (Value × Nat)
  | .value v, n => some (v, n)                                  -- quick return
  | .nil, n => some (.null, n)                                  -- value == nil
  | .iface g, n => convM lc g n                                 -- the interface layer is not visible
  | .marshaler false r _, n => some (r, n)                      -- value.(Marshaler)
  | .marshaler true _ u, n => convK lc u n                      -- T itself is not a Marshaler
  | .ptr (.marshaler _ r _), n => some (r, n)                   -- *T is, for both receiver kinds
  | .nilMarshalerPtr, n => some (.null, n)                      -- a nil pointer is null whatever its type (/repo: checked before the Marshaler test)
  | g, n => convK lc g n
/-- pointer/interface drilling followed by the kind switch (convert.go:37-83) -/
def convK (lc : Bool) : GoVal → Nat → Option (Value × Nat)
  | .ptr g, n => convK lc g n
  | .iface g, n => convK lc g n
  | .nilPtr, n => some (.null, n)                               -- !v.IsValid()
  | .nilMarshalerPtr, n => some (.null, n)
  | .nil, n => some (.null, n)
  | .value v, n => some (convValueRepr v n)
  | .marshaler _ _ u, n => convK lc u n
  | .time s, n => some (.str s, n)
  | .int _ i, n => some (.int i, n)
  | .uint _ u, n => some (.int u.toInt64, n)                    -- Int(v.Uint()) wraps
  | .float32 f, n => some (.float f, n)
  | .float64 f, n => some (.float f, n)
  | .bool b, n => some (.bool b, n)
  | .string s, n => some (.str s, n)
  | .nilSlice, n => some (.list 0 [], n)
  | .slice xs, n => match convList lc xs (n + 1) with
    | some (vs, n') => some (.list (listId vs.length n) vs, n')
    | none => none
  | .nilMap, n => some (.map n [], n + 1)
  | .strMap kvs, n => match convKvs lc kvs [] (n + 1) with
    | some (m, n') => some (.map n m, n')
    | none => none
  | .keyedMap 0, n => some (.map n [], n + 1)
  | .keyedMap (_ + 1), _ => none                                -- "map keys must be strings"
  | .struct fs, n => match convFields lc fs [] (n + 1) with
    | some (m, n') => some (.map n m, n')
    | none => none
  | .unsupported, _ => none
def convList (lc : Bool) : List GoVal → Nat → Option (List Value × Nat)
  | [], n => some ([], n)
  | x :: xs, n => match convM lc x n with
    | none => none
    | some (v, n') => match convList lc xs n' with
      | none => none
      | some (vs, n'') => some (v :: vs, n'')
def convKvs (lc : Bool) : List (Bytes × GoVal) → List (Bytes × Value) → Nat → Option (List (Bytes × Value) × Nat)
  | [], acc, n => some (acc, n)
  | (k, x) :: r, acc, n => match convM lc x n with
    | none => none
    | some (v, n') => convKvs lc r (Value.insert acc k v) n'
/-- `StructOptions.Data` -/
def convFields (lc : Bool) : List (Bytes × Bool × GoVal) → List (Bytes × Value) → Nat → Option (List (Bytes × Value) × Nat)
  | [], acc, n => some (acc, n)
  | (_, false, _) :: r, acc, n => convFields lc r acc n         -- !CanInterface(): skipped
  | (name, true, x) :: r, acc, n => match convM lc x n with
    | none => none
    | some (v, n') => convFields lc r (Value.insert acc (fieldKey lc name) v) n'
end

/-- first identity not used by the input (0 and 1 are reserved) -/
def freshBase (g : GoVal) : Nat := maxId g + 2

/-- `data.NewWith(StructOptions{LowerCamel: lowerCamel, …}, g)`; `none` = panic -/
def convert (lowerCamel : Bool) (g : GoVal) : Option Value :=
  (convM lowerCamel g (freshBase g)).map Prod.fst

end Convert
end SoyVerif
