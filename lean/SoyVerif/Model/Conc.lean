/-
  The lexer goroutine and its unbuffered channel (parse/lexer.go `run`, `emit`,
  `nextItem`, `drain`), as a two-thread transition system.

  * Producer: has `n` items to send, one `ch <- item` at a time; after the last one it
    closes the channel and terminates.  A send on an unbuffered channel completes only
    together with a receive.
  * Consumer (the parser): a program of `recv` steps (`<-ch`), optionally ending in
    `drain` (`for range ch {}`), then it RETURNS to its caller.  A receive on a closed
    channel returns the zero item immediately.

  State: items the producer still has to send, whether it has closed the channel, and
  the consumer's remaining program.  The only scheduling freedom is when the close
  happens relative to the consumer's steps; `Reach` is the reflexive-transitive closure
  of the step relation, so the theorems quantify over every interleaving.
-/
namespace SoyVerif.Model.Conc

inductive Act where
  | recv      -- one `<-ch`
  | drain     -- `for range ch {}`: receive until the channel is closed
  deriving DecidableEq, Repr

structure St where
  toSend : Nat          -- items the producer has not handed over yet
  closed : Bool         -- the producer has executed close(ch) and terminated
  prog : List Act       -- what the consumer still executes before it returns
  deriving DecidableEq, Repr

/-- the producer goroutine has exited -/
def producerDone (s : St) : Bool := s.closed

/-- the consumer has returned to its caller -/
def consumerDone (s : St) : Bool := s.prog.isEmpty

inductive Step : St → St → Prop where
  /-- rendezvous: the producer's pending send meets a receive -/
  | sendRecv (n : Nat) (p : List Act) :
      Step ⟨n + 1, false, .recv :: p⟩ ⟨n, false, p⟩
  /-- rendezvous inside a drain loop (the loop continues) -/
  | sendDrain (n : Nat) (p : List Act) :
      Step ⟨n + 1, false, .drain :: p⟩ ⟨n, false, .drain :: p⟩
  /-- the producer has sent everything: it closes the channel and exits -/
  | close (p : List Act) :
      Step ⟨0, false, p⟩ ⟨0, true, p⟩
  /-- receive on the closed channel: zero item, immediately -/
  | recvClosed (p : List Act) :
      Step ⟨0, true, .recv :: p⟩ ⟨0, true, p⟩
  /-- `range` over the closed channel ends the drain loop -/
  | drainClosed (p : List Act) :
      Step ⟨0, true, .drain :: p⟩ ⟨0, true, p⟩

inductive Reach : St → St → Prop where
  | refl (s : St) : Reach s s
  | step {a b c : St} : Step a b → Reach b c → Reach a c

/-- no further step is possible -/
def Stuck (s : St) : Prop := ∀ t, ¬ Step s t

/-- number of `recv` actions and whether a `drain` occurs -/
def recvs : List Act → Nat
  | [] => 0
  | .recv :: p => recvs p + 1
  | .drain :: p => recvs p
def drains (p : List Act) : Bool := p.contains .drain

/-- a consumer program "k receives, then drain or not" as the parser entry points execute it -/
def program (k : Nat) (drain : Bool) : List Act :=
  List.replicate k .recv ++ (if drain then [.drain] else [])

end SoyVerif.Model.Conc
