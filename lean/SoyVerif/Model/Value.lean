/-
  Model of /repo/data/value.go: the Soy data values and their Truthy / String / Equals / Index / Key.

  * `Int` is Go's int64 (`Int64`), `Float` the soft-float `F64`, `String` a byte string.
  * Lists and maps carry an `id : Nat` modelling Go *pointer identity* — `List.Equals`/`Map.Equals`
    compare `reflect.ValueOf(v).Pointer()`, i.e. the address of the backing array / of the hmap:
      - id 0  = the nil slice / nil map (Pointer() = 0);
      - list id 1 = every non-nil list of length 0 (Go allocates all zero-size objects at one address);
      - other ids = distinct allocations.
    Nothing in this file depends on that convention except through `==` on ids.
  * A Go map is an association list; `Map.String` ranges over the map *before* sorting, so the printer
    takes the iteration order as a parameter (a permutation of the item strings) and
    `toString_order_independent` (Props/C20.lean) shows it cannot be observed.
  * `Undefined.String()` panics: `toString` returns `none`.
-/
import SoyVerif.Base.Bytes
import SoyVerif.Base.F64

namespace SoyVerif

inductive Value where
  | undefined
  | null
  | bool (b : Bool)
  | int (i : Int64)
  | float (f : F64)
  | str (s : Bytes)
  | list (id : Nat) (xs : List Value)
  | map (id : Nat) (kvs : List (Bytes × Value))

namespace Value

instance : Inhabited Value := ⟨.undefined⟩

/-! ### Truthy (value.go:63-70) -/

def truthy : Value → Bool
  | .undefined => false
  | .null => false
  | .bool b => b
  | .int i => i != 0
  | .float f => !(F64.eq f F64.zero) && !f.isNaN      -- v != 0.0 && !math.IsNaN(v)
  | .str s => !s.isEmpty
  | .list _ _ => true
  | .map _ _ => true

/-! ### Equals (value.go:108-164) -/

def equals : Value → Value → Bool
  | .undefined, .undefined => true
  | .null, .null => true
  | .bool a, .bool b => a == b
  | .str a, .str b => a == b
  | .list i _, .list j _ => i == j                     -- same backing array
  | .map i _, .map j _ => i == j                       -- same hmap
  | .int a, .int b => a == b
  | .int a, .float b => F64.eq (F64.ofInt64 a) b       -- float64(v) == float64(o)
  | .float a, .int b => F64.eq a (F64.ofInt64 b)
  | .float a, .float b => F64.eq a b
  | _, _ => false

/-! ### String (value.go:74-104) -/

/-- Go's string `<=` (bytewise lexicographic) -/
def bytesLe : Bytes → Bytes → Bool
  | [], _ => true
  | _ :: _, [] => false
  | a :: as, b :: bs => if a < b then true else if b < a then false else bytesLe as bs

def insertSorted (x : Bytes) : List Bytes → List Bytes
  | [] => [x]
  | y :: ys => if bytesLe x y then x :: y :: ys else y :: insertSorted x ys

/-- `sort.Strings` -/
def sortStrings : List Bytes → List Bytes
  | [] => []
  | x :: xs => insertSorted x (sortStrings xs)

/-- `strings.Join(items, ", ")` -/
def joinComma : List Bytes → Bytes
  | [] => []
  | [x] => x
  | x :: y :: r => x ++ [44, 32] ++ joinComma (y :: r)

def sNull : Bytes := [110, 117, 108, 108]
def sTrue : Bytes := [116, 114, 117, 101]
def sFalse : Bytes := [102, 97, 108, 115, 101]
def sUndefined : Bytes := [117, 110, 100, 101, 102, 105, 110, 101, 100]

mutual
/-- `v.String()`; `none` is the panic of `Undefined.String()`.  `ord` is the order in which the Go
    runtime happens to range over a map (applied to the item strings). -/
def toString (ord : List Bytes → List Bytes) : Value → Option Bytes
  | .undefined => none
  | .null => some sNull
  | .bool b => some (if b then sTrue else sFalse)
  | .int i => some (F64.intDigits i.toInt)
  | .float f => some f.formatJS
  | .str s => some s
  | .list _ xs => match listItems ord xs with
    | none => none
    | some items => some ([91] ++ joinComma items ++ [93])
  | .map _ kvs => match mapItems ord kvs with
    | none => none
    | some items => some ([123] ++ joinComma (sortStrings (ord items)) ++ [125])
/-- `items[i] = item.String()` -/
def listItems (ord : List Bytes → List Bytes) : List Value → Option (List Bytes)
  | [] => some []
  | x :: xs => match toString ord x, listItems ord xs with
    | some s, some r => some (s :: r)
    | _, _ => none
/-- `items[i] = k + ": " + vstr`, with "undefined" for an undefined member -/
def mapItems (ord : List Bytes → List Bytes) : List (Bytes × Value) → Option (List Bytes)
  | [] => some []
  | (k, .undefined) :: r => match mapItems ord r with
    | some items => some ((k ++ [58, 32] ++ sUndefined) :: items)
    | none => none
  | (k, v) :: r => match toString ord v, mapItems ord r with
    | some s, some items => some ((k ++ [58, 32] ++ s) :: items)
    | _, _ => none
end

/-- the printer with the stored order as iteration order -/
def render (v : Value) : Option Bytes := toString id v

/-! ### Index / Key (value.go:40-54) -/

/-- `List.Index(i)` -/
def index (xs : List Value) (i : Int) : Value :=
  if 0 ≤ i ∧ i < (xs.length : Int) then xs.getD i.toNat .undefined else .undefined

/-- `Map.Key(k)` -/
def key : List (Bytes × Value) → Bytes → Value
  | [], _ => .undefined
  | (k', v) :: r, k => if k' == k then v else key r k

/-- `m[k] = v` on the association list -/
def insert : List (Bytes × Value) → Bytes → Value → List (Bytes × Value)
  | [], k, v => [(k, v)]
  | (k', v') :: r, k, v => if k' == k then (k', v) :: r else (k', v') :: insert r k v

mutual
/-- largest identity occurring in a value (used to pick fresh ones) -/
def maxId : Value → Nat
  | .list i xs => max i (maxIdList xs)
  | .map i kvs => max i (maxIdKvs kvs)
  | _ => 0
def maxIdList : List Value → Nat
  | [] => 0
  | x :: xs => max (maxId x) (maxIdList xs)
def maxIdKvs : List (Bytes × Value) → Nat
  | [] => 0
  | (_, v) :: r => max (maxId v) (maxIdKvs r)
end

end Value
end SoyVerif
