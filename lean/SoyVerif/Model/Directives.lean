/-
  Print directives of /repo/soyhtml/directives.go on string values, and the escape decision
  of evalPrint (/repo/soyhtml/exec.go:317-386).

  A value is represented by its `String()` bytes (every directive but `json` only looks at
  `value.String()`; `id`/`noAutoescape` and a fitting `truncate` return the value itself,
  whose String() is unchanged).  `json` is modelled for data.String values only.
  Panics (failed type assertion, index out of range, nil function) are explicit.
  The directive table (names, arities, cancel flags, implementing function) is GENERATED
  from the live soyhtml.PrintDirectives map (Gen/DirectiveTable.lean).
-/
import SoyVerif.Model.Escape
import SoyVerif.Model.JsEscape2
import SoyVerif.Gen.DirectiveTable

namespace SoyVerif.Model.Directives
open SoyVerif SoyVerif.Model

/-- an evaluated directive argument (data.Int or data.Bool; other kinds do not occur in the
    in-range calls the properties quantify over) -/
inductive Arg where
  | int (n : Int)
  | bool (b : Bool)
  deriving Repr, DecidableEq

/-- outcome of a directive / a print: value, template error (`s.errorf`), Go panic, or a table
    entry whose implementation the model does not know (shows up as a correspondence diff) -/
inductive Res (α : Type) where
  | ok (a : α)
  | err
  | panic
  | unmodelled
  deriving Repr, DecidableEq

/-! ## changeNewlineToBr -/

def brTag : Bytes := [60, 98, 114, 62]          -- <br>
def wbrTag : Bytes := [60, 119, 98, 114, 62]    -- <wbr>

/-- regexp `\r\n|\r|\n` ReplaceAllString "<br>" (leftmost-first: CR LF is one match);
    `prevCR` = the previous byte was a CR that has already produced its <br>. -/
def nlToBrGo : Bool → Bytes → Bytes
  | _, [] => []
  | prevCR, b :: r =>
    if b == 13 then brTag ++ nlToBrGo true r
    else if b == 10 then (if prevCR then nlToBrGo false r else brTag ++ nlToBrGo false r)
    else b :: nlToBrGo false r

def changeNewlineToBr (s : Bytes) : Bytes := nlToBrGo false (htmlEscape s)

/-! ## insertWordBreaks (entity-aware, bytewise copy) -/

/-- the loop of directiveInsertWordBreaks over the escaped input.  `skip` = remaining bytes of
    the rune being copied (`output.WriteString(input[i:i+size])`), `chars` = characters since the
    last space / break, `inEntity` = inside a character reference. -/
def wordBreaksGo (maxChars : Int) : Nat → Nat → Bool → Bytes → Bytes
  | _, _, _, [] => []
  | skip + 1, chars, inEntity, b :: r => b :: wordBreaksGo maxChars skip chars inEntity r
  | 0, chars, inEntity, b :: r =>
    let d := decodeRune (b :: r)
    if inEntity then b :: wordBreaksGo maxChars (d.2 - 1) chars (d.1 != 59) r
    else if d.1 == 32 then b :: wordBreaksGo maxChars (d.2 - 1) 0 inEntity r
    else if (chars : Int) ≥ maxChars then
      wbrTag ++ b :: wordBreaksGo maxChars (d.2 - 1) 1 (d.1 == 38) r
    else b :: wordBreaksGo maxChars (d.2 - 1) (chars + 1) (d.1 == 38) r

def insertWordBreaks (s : Bytes) (maxChars : Int) : Bytes :=
  wordBreaksGo maxChars 0 0 false (htmlEscape s)

/-! ## truncate -/

/-- `for maxLen > 0 && !utf8.RuneStart(str[maxLen]) { maxLen-- }`: stops at index 0 without
    looking at it; `none` = index out of range (maxLen ≥ len, which the caller excludes) -/
def scanBack (str : Bytes) : Nat → Option Nat
  | 0 => some 0
  | n + 1 => match str[n + 1]? with
    | some b => if runeStart b then some (n + 1) else scanBack str n
    | none => none

def ellipsisBytes : Bytes := [46, 46, 46]

/-- directiveTruncate -/
def truncate (str : Bytes) (args : List Arg) : Res Bytes :=
  match args with
  | [] => .panic                                     -- args[0]: index out of range
  | Arg.bool _ :: _ => .panic                        -- "First parameter of '|truncate' is not an integer"
  | Arg.int maxLen :: rest =>
    if (str.length : Int) ≤ maxLen then .ok str else
    let ell : Option Bool :=
      match rest with                                -- `if len(args) == 2`
      | [Arg.bool e] => some e
      | [Arg.int _] => none                          -- "Second parameter of '|truncate' is not a bool"
      | _ => some true
    match ell with
    | none => .panic
    | some e =>
      let cut : Int := if e && maxLen > 3 then maxLen - 3 else maxLen
      let e' : Bool := e && maxLen > 3
      if cut < 0 then .panic                          -- str[:maxLen] with a negative bound
      else match scanBack str cut.toNat with
        | none => .panic
        | some k => .ok (str.take k ++ (if e' then ellipsisBytes else []))

/-! ## the table of implementations -/

def sDirectiveInsertWordBreaks : Bytes := [100, 105, 114, 101, 99, 116, 105, 118, 101, 73, 110, 115, 101, 114, 116, 87, 111, 114, 100, 66, 114, 101, 97, 107, 115]
def sDirectiveChangeNewlineToBr : Bytes := [100, 105, 114, 101, 99, 116, 105, 118, 101, 67, 104, 97, 110, 103, 101, 78, 101, 119, 108, 105, 110, 101, 84, 111, 66, 114]
def sDirectiveTruncate : Bytes := [100, 105, 114, 101, 99, 116, 105, 118, 101, 84, 114, 117, 110, 99, 97, 116, 101]
def sDirectiveNoAutoescape : Bytes := [100, 105, 114, 101, 99, 116, 105, 118, 101, 78, 111, 65, 117, 116, 111, 101, 115, 99, 97, 112, 101]
def sDirectiveEscapeHtml : Bytes := [100, 105, 114, 101, 99, 116, 105, 118, 101, 69, 115, 99, 97, 112, 101, 72, 116, 109, 108]
def sDirectiveEscapeUri : Bytes := [100, 105, 114, 101, 99, 116, 105, 118, 101, 69, 115, 99, 97, 112, 101, 85, 114, 105]
def sDirectiveEscapeJsString : Bytes := [100, 105, 114, 101, 99, 116, 105, 118, 101, 69, 115, 99, 97, 112, 101, 74, 115, 83, 116, 114, 105, 110, 103]
def sDirectiveJson : Bytes := [100, 105, 114, 101, 99, 116, 105, 118, 101, 74, 115, 111, 110]
def sNil : Bytes := [110, 105, 108]

/-- `directive.Apply(value, args)` for the Go function named `impl`, on a string value -/
def applyImpl (impl : Bytes) (v : Bytes) (args : List Arg) : Res Bytes :=
  if impl == sDirectiveInsertWordBreaks then
    match args with
    | Arg.int n :: _ => .ok (insertWordBreaks v n)
    | _ => .panic                                    -- args[0].(data.Int)
  else if impl == sDirectiveChangeNewlineToBr then .ok (changeNewlineToBr v)
  else if impl == sDirectiveTruncate then truncate v args
  else if impl == sDirectiveNoAutoescape then .ok v
  else if impl == sDirectiveEscapeHtml then .ok (htmlEscape v)
  else if impl == sDirectiveEscapeUri then .ok (queryEscape v)
  else if impl == sDirectiveEscapeJsString then .ok (jsEscapeFixed v)
  else if impl == sDirectiveJson then .ok (jsonString v)
  else if impl == sNil then .panic                   -- call of a nil func
  else .unmodelled

abbrev Table := List Gen.DirectiveEntry

def lookup (tbl : Table) (name : Bytes) : Option Gen.DirectiveEntry :=
  tbl.find? (·.name == name)

/-- checkNumArgs -/
def checkNumArgs (allowed : List Nat) (n : Nat) : Bool := allowed.any (· == n)

/-- one directive application as evalPrint performs it: lookup, arity check, Apply under
    recover.  `applyDirect` is Apply itself (a panic stays a panic). -/
def applyDirect (tbl : Table) (name : Bytes) (v : Bytes) (args : List Arg) : Res Bytes :=
  match lookup tbl name with
  | none => .err
  | some d =>
    if !checkNumArgs d.arities args.length then .err
    else applyImpl d.impl v args

/-! ## evalPrint: the escape decision -/

inductive Mode where
  | unspecified | on | off | contextual
  deriving Repr, DecidableEq

/-- a directive node: name and evaluated arguments -/
abbrev DirCall := Bytes × List Arg

/-- the `for _, directiveNode := range directives` loop: current value and `escapeHtml` flag;
    a panic inside Apply is recovered into a template error. -/
def runChain (tbl : Table) : List DirCall → Bytes → Bool → Res (Bytes × Bool)
  | [], v, esc => .ok (v, esc)
  | (name, args) :: ds, v, esc =>
    match lookup tbl name with
    | none => .err                                    -- "Print directive %q does not exist"
    | some d =>
      if !checkNumArgs d.arities args.length then .err
      else match applyImpl d.impl v args with
        | .ok v' => runChain tbl ds v' (if d.cancel then false else esc)
        | .panic => .err                              -- recover() -> s.errorf
        | .err => .err
        | .unmodelled => .unmodelled

/-- bytes written by evalPrint for a (defined) value with String() = `v` in a state with
    autoescape mode `mode`; `oblig` = ObligatoryPrintDirectiveNames (appended, no args). -/
def printBytesWith (tbl : Table) (oblig : List Bytes) (mode : Mode) (dirs : List DirCall) (v : Bytes) : Res Bytes :=
  match runChain tbl (dirs ++ oblig.map fun n => (n, [])) v (mode != .off) with
  | .ok (r, esc) => .ok (if esc then htmlEscape r else r)
  | .err => .err
  | .panic => .panic
  | .unmodelled => .unmodelled

def printBytes (mode : Mode) (dirs : List DirCall) (v : Bytes) : Res Bytes :=
  printBytesWith Gen.directiveTable Gen.obligatoryDirectives mode dirs v

/-- the mode of the state in which a template's prints run (renderer.go:52-55, exec.go:93):
    the template's own attribute if given, else the namespace's, else On. -/
def effectiveMode (ns tmpl : Mode) : Mode :=
  if tmpl != .unspecified then tmpl
  else if ns == .unspecified then .on else ns

end SoyVerif.Model.Directives
