/-
  Byte-level models of the escaping functions reached from soyhtml (C03 / C16 / C14):

    htmlEscape    = soyhtml.htmlEscapeString            (/repo/soyhtml/exec.go, the autoescaper)
    goHtmlEscape  = text/template.HTMLEscapeString      (Go stdlib, also NUL -> U+FFFD)
    jsEscape      = text/template.JSEscapeString        (Go stdlib; utf8.DecodeRune + unicode.IsPrint)
    queryEscape   = net/url.QueryEscape                 (Go stdlib, shouldEscape mode encodeQueryComponent)
    jsonString    = encoding/json string encoding with escapeHTML (json.Marshal of a data.String)

  Go strings are byte sequences: everything works on `Bytes`, invalid UTF-8 included.
  The Go loops copy unchanged stretches `str[last:i]` in chunks; the chunks concatenate
  to the bytes themselves, so the models emit byte by byte.  A rune of `size` bytes that
  the Go code steps over with `i += size` is handled by a `skip` counter (structural
  recursion on the remaining input).
  Core Lean only.  Constants are byte-list literals (string literals do not reduce in the kernel).
-/
import SoyVerif.Base.Bytes
import SoyVerif.Gen.UnicodePrint

namespace SoyVerif.Model

/-! ## soyhtml.htmlEscapeString -/

/-- the `switch str[i]` of htmlEscapeString: the replacement, or `none` for `default: continue` -/
def htmlRepl (b : UInt8) : Option Bytes :=
  if b == 34 then some [38, 113, 117, 111, 116, 59]  -- "  ->  &quot;
  else if b == 39 then some [38, 35, 51, 57, 59]     -- '  ->  &#39;
  else if b == 38 then some [38, 97, 109, 112, 59]   -- &  ->  &amp;
  else if b == 60 then some [38, 108, 116, 59]       -- <  ->  &lt;
  else if b == 62 then some [38, 103, 116, 59]       -- >  ->  &gt;
  else none

/-- bytes written for one input byte -/
def htmlPiece (b : UInt8) : Bytes :=
  match htmlRepl b with
  | some h => h
  | none => [b]

/-- soyhtml.htmlEscapeString: all bytes written to the writer, in order -/
def htmlEscape : Bytes → Bytes
  | [] => []
  | b :: r => htmlPiece b ++ htmlEscape r

/-! ## utf8.DecodeRune -/

def runeError : Nat := 0xFFFD

def isCont (b : UInt8) : Bool := 0x80 ≤ b && b ≤ 0xBF

/-- acceptRanges of unicode/utf8 for the second byte of a three-byte sequence
    (E0: A0..BF excludes overlong forms, ED: 80..9F excludes surrogates) -/
def accept3 (b0 b1 : UInt8) : Bool :=
  (if b0 == 0xE0 then 0xA0 else 0x80) ≤ b1 && b1 ≤ (if b0 == 0xED then 0x9F else 0xBF)

/-- … and of a four-byte sequence (F0: 90..BF, F4: 80..8F keeps the rune ≤ 0x10FFFF) -/
def accept4 (b0 b1 : UInt8) : Bool :=
  (if b0 == 0xF0 then 0x90 else 0x80) ≤ b1 && b1 ≤ (if b0 == 0xF4 then 0x8F else 0xBF)

/-- utf8.DecodeRune / DecodeRuneInString: (rune, size); invalid or short input gives
    (RuneError, 1), empty input (RuneError, 0). -/
def decodeRune : Bytes → Nat × Nat
  | [] => (runeError, 0)
  | b0 :: r =>
    if b0 < 0x80 then (b0.toNat, 1)
    else if 0xC2 ≤ b0 && b0 ≤ 0xDF then
      match r with
      | b1 :: _ =>
        if isCont b1 then ((b0.toNat % 32) * 64 + b1.toNat % 64, 2) else (runeError, 1)
      | [] => (runeError, 1)
    else if 0xE0 ≤ b0 && b0 ≤ 0xEF then
      match r with
      | b1 :: b2 :: _ =>
        if accept3 b0 b1 && isCont b2 then
          ((b0.toNat % 16) * 4096 + (b1.toNat % 64) * 64 + b2.toNat % 64, 3)
        else (runeError, 1)
      | _ => (runeError, 1)
    else if 0xF0 ≤ b0 && b0 ≤ 0xF4 then
      match r with
      | b1 :: b2 :: b3 :: _ =>
        if accept4 b0 b1 && isCont b2 && isCont b3 then
          ((b0.toNat % 8) * 262144 + (b1.toNat % 64) * 4096 + (b2.toNat % 64) * 64 + b3.toNat % 64, 4)
        else (runeError, 1)
      | _ => (runeError, 1)
    else (runeError, 1)

/-- utf8.RuneStart -/
def runeStart (b : UInt8) : Bool := !(isCont b)

/-! ## unicode.IsPrint (generated range table) -/

def inRanges (t : List (Nat × Nat)) (r : Nat) : Bool :=
  t.any fun p => p.1 ≤ r && r ≤ p.2

/-- unicode.IsPrint of the Go toolchain in use -/
def isPrint (r : Nat) : Bool := inRanges Gen.printRanges r

/-! ## text/template.JSEscapeString -/

def hexUpper (n : Nat) : UInt8 := if n < 10 then UInt8.ofNat (48 + n) else UInt8.ofNat (55 + n)
def hexLower (n : Nat) : UInt8 := if n < 10 then UInt8.ofNat (48 + n) else UInt8.ofNat (87 + n)

/-- `fmt.Sprintf("%04X", r)` for a rune 0 ≤ r ≤ 0x10FFFF: at least four upper-case hex
    digits — five or six above 0xFFFF (which is what the Go code prints after `\u`). -/
def fmt04X (r : Nat) : Bytes :=
  let d (k : Nat) : UInt8 := hexUpper (r / 16 ^ k % 16)
  if r ≥ 0x100000 then [d 5, d 4, d 3, d 2, d 1, d 0]
  else if r ≥ 0x10000 then [d 4, d 3, d 2, d 1, d 0]
  else [d 3, d 2, d 1, d 0]

/-- jsIsSpecial on a byte -/
def jsIsSpecial (c : UInt8) : Bool :=
  c == 92 || c == 39 || c == 34 || c == 60 || c == 62 || c == 38 || c == 61 || c < 32 || 0x80 ≤ c

/-- the ASCII branch of JSEscape for a special byte -/
def jsAsciiEsc (c : UInt8) : Bytes :=
  if c == 92 then [92, 92]
  else if c == 39 then [92, 39]
  else if c == 34 then [92, 34]
  else if c == 60 then [92, 117, 48, 48, 51, 67]
  else if c == 62 then [92, 117, 48, 48, 51, 69]
  else if c == 38 then [92, 117, 48, 48, 50, 54]
  else if c == 61 then [92, 117, 48, 48, 51, 68]
  else [92, 117, 48, 48, hexUpper (c.toNat / 16), hexUpper (c.toNat % 16)]

/-- text/template.JSEscape with `isPrint` as parameter; `skip` = bytes of the current rune
    already written (`i += size - 1`). -/
def jsEscapeGo (isPrint : Nat → Bool) : Nat → Bytes → Bytes
  | _, [] => []
  | skip + 1, _ :: r => jsEscapeGo isPrint skip r
  | 0, c :: r =>
    if !jsIsSpecial c then c :: jsEscapeGo isPrint 0 r
    else if c < 0x80 then jsAsciiEsc c ++ jsEscapeGo isPrint 0 r
    else
      let d := decodeRune (c :: r)
      (if isPrint d.1 then (c :: r).take d.2 else [92, 117] ++ fmt04X d.1)
        ++ jsEscapeGo isPrint (d.2 - 1) r

def jsEscapeWith (isPrint : Nat → Bool) (s : Bytes) : Bytes := jsEscapeGo isPrint 0 s

/-- text/template.JSEscapeString (the IndexFunc fast path returns `s`, as the loop does) -/
def jsEscape (s : Bytes) : Bytes := jsEscapeWith isPrint s

/-! ## net/url.QueryEscape -/

/-- shouldEscape(c, encodeQueryComponent) -/
def shouldEscapeQuery (c : UInt8) : Bool :=
  if (97 ≤ c && c ≤ 122) || (65 ≤ c && c ≤ 90) || (48 ≤ c && c ≤ 57) then false
  else if c == 45 || c == 95 || c == 46 || c == 126 then false
  else true

def queryPiece (c : UInt8) : Bytes :=
  if c == 32 then [43]
  else if shouldEscapeQuery c then [37, hexUpper (c.toNat / 16), hexUpper (c.toNat % 16)]
  else [c]

/-- net/url.QueryEscape (= escape(s, encodeQueryComponent); the two fast paths agree with the
    general loop) -/
def queryEscape : Bytes → Bytes
  | [] => []
  | c :: r => queryPiece c ++ queryEscape r

/-! ## encoding/json: string encoding with escapeHTML = true -/

/-- htmlSafeSet[b] for b < 0x80 -/
def jsonHtmlSafe (b : UInt8) : Bool :=
  32 ≤ b && b != 34 && b != 38 && b != 60 && b != 62 && b != 92

def jsonAsciiEsc (b : UInt8) : Bytes :=
  if b == 92 || b == 34 then [92, b]
  else if b == 8 then [92, 98]
  else if b == 12 then [92, 102]
  else if b == 10 then [92, 110]
  else if b == 13 then [92, 114]
  else if b == 9 then [92, 116]
  else [92, 117, 48, 48, hexLower (b.toNat / 16), hexLower (b.toNat % 16)]

/-- body of encoding/json appendString (between the quotes) -/
def jsonStringGo : Nat → Bytes → Bytes
  | _, [] => []
  | skip + 1, _ :: r => jsonStringGo skip r
  | 0, b :: r =>
    if b < 0x80 then
      (if jsonHtmlSafe b then [b] else jsonAsciiEsc b) ++ jsonStringGo 0 r
    else
      let d := decodeRune (b :: r)
      if d.1 == runeError && d.2 == 1 then [92, 117, 102, 102, 102, 100] ++ jsonStringGo 0 r
      else if d.1 == 0x2028 then [92, 117, 50, 48, 50, 56] ++ jsonStringGo 2 r
      else if d.1 == 0x2029 then [92, 117, 50, 48, 50, 57] ++ jsonStringGo 2 r
      else (b :: r).take d.2 ++ jsonStringGo (d.2 - 1) r

/-- json.Marshal of a Go string value (data.String has no MarshalJSON) -/
def jsonString (s : Bytes) : Bytes := [34] ++ jsonStringGo 0 s ++ [34]

end SoyVerif.Model
