/-
  `CheckDataRefs` / `Registry.Add` WITH their errors: the same walks as Model/Check.lean (`check`) and
  Model/Registry.lean (`addAll`), returning instead of "rejected" the error the Go code reports —
  the template `CheckDataRefs` was looking at (the prefix "template NAME: " of its message), the KIND
  of the error and the payload the message prints, with every name list IN THE ORDER the Go code builds
  it (all its loops range over slices: the order is a function of the tree).

    unusedParams ns        "params %q are unused"                                   (CheckDataRefs)
    headerParam            "unexpected {@param ...} tag found"                      (checkTemplate)
    letIj                  "Invalid variable name in 'let' command text: '$ij'"     (checkLet)
    callNotFound n         "{call}: template %q not found"                          (checkCall)
    undeclaredParams ns    "Params %q are not declared by the callee."
    missingRequired ns     "Required params %q are not passed by the call: %v"      (the call node's text is not modelled)
    unusedLets ns          "{let} variables %q are not used."                       (leaveScope)
    dataRefNotFound k ps vs  "data ref %q not found. params: %v, let variables: %v" (visitKey; vs = every variable in scope)
    loopFuncArg fn         "%v: the argument of %s must be the variable of an enclosing foreach or for loop"
                                                                     (checkLoopFunc; fn = %s, the node's text is not modelled)
  and for Registry.Add (no template prefix):
    namespaceExpected      "expected namespace, found %v"
    namespaceRequired      "namespace required"
    bothParams             "template may not have both soydoc and header params specified"
    duplicate n            "template %v is defined more than once"
    commandOutside         "command outside of a template: %v"                     (the node's text is not modelled)

  `Props/C13c.lean` proves that these walks accept exactly when `check` / `addAll` do, and the stability of
  the reported error under permutation of the files.
-/
import SoyVerif.Model.Check
import SoyVerif.Model.Registry

namespace SoyVerif.Model.CheckErr
open SoyVerif SoyVerif.Model SoyVerif.Model.Check

instance {ε α : Type} [DecidableEq ε] [DecidableEq α] : DecidableEq (Except ε α) := fun a b =>
  match a, b with
  | .ok x, .ok y => if h : x = y then isTrue (by rw [h]) else isFalse (fun e => by cases e; exact h rfl)
  | .error x, .error y => if h : x = y then isTrue (by rw [h]) else isFalse (fun e => by cases e; exact h rfl)
  | .ok _, .error _ => isFalse (fun e => by cases e)
  | .error _, .ok _ => isFalse (fun e => by cases e)

inductive ErrKind where
  | unusedParams (names : List Bytes)
  | headerParam
  | letIj
  | callNotFound (name : Bytes)
  | undeclaredParams (names : List Bytes)
  | missingRequired (names : List Bytes)
  | unusedLets (names : List Bytes)
  | dataRefNotFound (key : Bytes) (params vars : List Bytes)
  | loopFuncArg (fn : Bytes)
  deriving Repr, DecidableEq, Inhabited

/-- the error of `CheckDataRefs`: "template NAME: …" -/
structure CheckErr where
  template : Bytes
  kind : ErrKind
  deriving Repr, DecidableEq, Inhabited

abbrev CE := StateT CState (Except ErrKind)

def fail {α : Type} (k : ErrKind) : CE α := fun _ => .error k

/-- `leaveScope(outer)` -/
def leaveScopeE (outer : Nat) : CE Unit := do
  let st ← get
  let unused := ((st.vars.drop outer).filter (fun v => v.isLet && !v.used)).map (·.name)
  if !unused.isEmpty then fail (.unusedLets unused)
  else set { st with vars := st.vars.take outer }

/-- `visitKey` -/
def visitKeyE (params : List Bytes) (key : Bytes) : CE Unit := do
  if key == [105, 106] then pure ()
  else
    let st ← get
    match markUsed key st.vars with
    | some vars' => set { st with vars := vars' }
    | none =>
      if params.contains key then set { st with usedKeys := st.usedKeys ++ [key] }
      else fail (.dataRefNotFound key params (st.vars.map (·.name)))

def checkLetE (name : Bytes) : CE Unit :=
  if name == [105, 106] then fail .letIj else pure ()

def declareE (name : Bytes) (isLet : Bool) : CE Unit :=
  modify fun st => { st with vars := st.vars ++ [{ name := name, isLet := isLet, used := false }] }

/-- `checkLoopFunc` -/
def checkLoopFuncE (name : Bytes) (args : ExprList) : CE Unit := do
  match loopArg args with
  | none => fail (.loopFuncArg name)
  | some key =>
    let st ← get
    if isLoopVar st.vars key then pure () else fail (.loopFuncArg name)

section
variable (reg : List Template) (params : List Bytes)

/-- `checkCall` -/
def checkCallE (name : Bytes) (allData : Bool) (hasData : Bool) (paramKeys : List Bytes) : CE Unit := do
  match reg.find? (fun t => t.name == name) with
  | none => fail (.callNotFound name)
  | some callee =>
    let allCallee := callee.params.map (·.name)
    let required := (callee.params.filter (fun p => !p.optional)).map (·.name)
    let passedByAll := if allData then params.filter (fun p => allCallee.contains p) else []
    modify fun st => { st with usedKeys := st.usedKeys ++ passedByAll }
    let callerParamNames := passedByAll ++ paramKeys
    let undeclared := callerParamNames.filter (fun k => !allCallee.contains k)
    if !undeclared.isEmpty then fail (.undeclaredParams undeclared)
    else if hasData then pure ()
    else
      let missing := required.filter (fun r => !callerParamNames.contains r)
      if !missing.isEmpty then fail (.missingRequired missing)
      else pure ()

mutual
  def checkExprE : Expr → CE Unit
    | .dataRef _ key acc => do
      visitKeyE params key
      let st ← get
      let outer := st.vars.length
      checkAccessesE acc
      leaveScopeE outer
    | .func _ name args => do
      (if loopFn name then checkLoopFuncE name args else pure ())
      checkExprsE args
    | .list _ items => checkExprsE items
    | .map _ items => checkMapItemsE items
    | .not _ a => checkExprE a
    | .neg _ a => checkExprE a
    | .bin _ _ a b => do checkExprE a; checkExprE b
    | .tern _ c a b => do checkExprE c; checkExprE a; checkExprE b
    | _ => pure ()
  def checkExprsE : ExprList → CE Unit
    | .nil => pure ()
    | .cons e r => do checkExprE e; checkExprsE r
  def checkMapItemsE : MapItems → CE Unit
    | .nil => pure ()
    | .cons _ e r => do checkExprE e; checkMapItemsE r
  def checkAccessesE : AccessList → CE Unit
    | .nil => pure ()
    | .cons a r => do
      (match a with
       | .expr _ _ e => checkExprE e
       | _ => pure ())
      checkAccessesE r
end

def checkOptExprE : Option Expr → CE Unit
  | none => pure ()
  | some e => checkExprE params e

def checkExprListE : List Expr → CE Unit
  | [] => pure ()
  | e :: r => do checkExprE params e; checkExprListE r

def inScopeE (body : CE Unit) : CE Unit := do
  let st ← get
  let outer := st.vars.length
  body
  leaveScopeE outer

mutual
  def checkCmdE : Cmd → CE Unit
    | .rawText .. => pure ()
    | .debugger .. => pure ()
    | .print _ a dirs => inScopeE (do
        checkExprE params a
        checkDirsE dirs)
    | .msg _ _ _ _ _ body => inScopeE (checkPartsE body)
    | .css _ e _ => inScopeE (checkOptExprE params e)
    | .log _ b => inScopeE (checkBlockE b)
    | .ifc _ conds => inScopeE (checkCondsE conds)
    | .forc _ v l b ie => do
      checkExprE params l
      let st ← get
      let outer := st.vars.length
      declareE v false
      checkBlockE b
      leaveScopeE outer
      (match ie with
       | some b' => checkBlockE b'
       | none => pure ())
    | .switch _ v cases => inScopeE (do
        checkExprE params v
        checkCasesE cases)
    | .call _ name allData d ps => do
      checkCallE reg params name allData d.isSome (paramKeys ps)
      inScopeE (do
        checkOptExprE params d
        checkParamsE ps)
    | .letValue _ name e => do
      checkLetE name
      inScopeE (checkExprE params e)
      declareE name true
    | .letContent _ name b => do
      checkLetE name
      inScopeE (checkBlockE b)
      declareE name true
    | .headerParam .. => fail .headerParam
    | .namespace .. => pure ()
    | .template _ _ b _ _ => inScopeE (checkBlockE b)
    | .soyDoc .. => pure ()
  def checkBlockE : Block → CE Unit
    | .mk _ cmds => do
      let st ← get
      let outer := st.vars.length
      checkCmdsE cmds
      leaveScopeE outer
  def checkCmdsE : CmdList → CE Unit
    | .nil => pure ()
    | .cons c r => do checkCmdE c; checkCmdsE r
  def checkDirsE : List Directive → CE Unit
    | [] => pure ()
    | d :: r => do
      inScopeE (checkExprListE params d.args)
      checkDirsE r
  def checkCondsE : CondList → CE Unit
    | .nil => pure ()
    | .cons _ c b r => do
      inScopeE (do
        checkOptExprE params c
        checkBlockE b)
      checkCondsE r
  def checkCasesE : CaseList → CE Unit
    | .nil => pure ()
    | .cons _ vs b r => do
      inScopeE (do
        checkBlockE b
        checkExprListE params vs)
      checkCasesE r
  def checkParamsE : ParamList → CE Unit
    | .nil => pure ()
    | .value _ _ e r => do
      inScopeE (checkExprE params e)
      checkParamsE r
    | .content _ _ b r => do
      inScopeE (checkBlockE b)
      checkParamsE r
  def checkPartsE : MsgParts → CE Unit
    | .nil => pure ()
    | .text _ _ r => checkPartsE r
    | .ph _ _ body r => do
      inScopeE (match body with
        | .htmlTag .. => pure ()
        | .cmd c => checkCmdE c)
      checkPartsE r
    | .plural _ _ v cases _ d r => do
      inScopeE (do
        checkExprE params v
        checkPlCasesE cases
        inScopeE (checkPartsE d))
      checkPartsE r
  def checkPlCasesE : PluralCases → CE Unit
    | .nil => pure ()
    | .cons _ _ _ b r => do
      inScopeE (inScopeE (checkPartsE b))
      checkPlCasesE r
end

end

/-- the loop body of `CheckDataRefs` for one template: its error, if any -/
def checkOneE (reg : List Template) (t : Template) : Except ErrKind Unit :=
  let params := t.params.map (·.name)
  match (inScopeE (checkBlockE reg params t.body)).run { vars := [], usedKeys := [] } with
  | .error k => .error k
  | .ok (_, st) =>
    let unused := params.filter (fun p => !st.usedKeys.contains p)
    if !unused.isEmpty then .error (.unusedParams unused) else .ok ()

/-- the loop of `CheckDataRefs` over `ts` (a suffix of the registry `reg`) -/
def checkLoop (reg : List Template) : List Template → Except CheckErr Unit
  | [] => .ok ()
  | t :: r =>
    match checkOneE reg t with
    | .error k => .error ⟨t.name, k⟩
    | .ok () => checkLoop reg r

/-- `CheckDataRefs(registry)` with its error -/
def checkE (reg : List Template) : Except CheckErr Unit := checkLoop reg reg

/-! ### Registry.Add with its errors -/

inductive RegErr where
  | namespaceExpected
  | namespaceRequired
  | bothParams
  | duplicate (name : Bytes)
  | commandOutside
  deriving Repr, DecidableEq, Inhabited

open SoyVerif.Model.Registry in
def findNamespaceE : List Cmd → Except RegErr (Bytes × Autoescape)
  | [] => .error .namespaceRequired
  | .soyDoc .. :: rest => findNamespaceE rest
  | .namespace _ n ae :: _ => .ok (n, ae)
  | _ => .error .namespaceExpected

open SoyVerif.Model.Registry in
def addTemplatesE (fileName text nsName : Bytes) (nsAe : Autoescape) :
    List Cmd → Option Cmd → Reg → Except RegErr Reg
  | [], _, reg => .ok reg
  | c :: rest, prev, reg =>
    match c with
    | .template pos name (.mk bpos cmds) ae _ =>
      let docParams : List Check.Param := match prev with
        | some (.soyDoc _ ps) => ps.map fun p => { name := p.name, optional := p.optional }
        | _ => []
      let (hps, body) := splitHeaderParams cmds
      if !hps.isEmpty && !docParams.isEmpty then .error .bothParams
      else if reg.any (fun t => t.name == name) then .error (.duplicate name)
      else
        let t : Tmpl := { name := name, params := docParams ++ hps, body := .mk bpos body, autoescape := ae,
                          nsName := nsName, nsAutoescape := nsAe, pos := pos, file := fileName, text := text }
        addTemplatesE fileName text nsName nsAe rest (some c) (reg ++ [t])
    | .namespace .. | .soyDoc .. | .rawText .. => addTemplatesE fileName text nsName nsAe rest (some c) reg
    | _ => .error .commandOutside

open SoyVerif.Model.Registry in
def addE (reg : Reg) (f : SoyFile) : Except RegErr Reg :=
  match findNamespaceE f.body with
  | .error e => .error e
  | .ok (ns, ae) => addTemplatesE f.name f.text ns ae f.body none reg

open SoyVerif.Model.Registry in
def addAllE : Reg → List SoyFile → Except RegErr Reg
  | reg, [] => .ok reg
  | reg, f :: fs =>
    match addE reg f with
    | .error e => .error e
    | .ok r => addAllE r fs

/-- the outcome of compiling a bundle as far as `Registry.Add` and `CheckDataRefs` go -/
inductive CompileErr where
  | reg (e : RegErr)
  | check (e : CheckErr)
  deriving Repr, DecidableEq, Inhabited

def compileE (fs : List SoyFile) : Except CompileErr Unit :=
  match addAllE [] fs with
  | .error e => .error (.reg e)
  | .ok reg =>
    match checkE (Registry.toCheck reg) with
    | .error e => .error (.check e)
    | .ok () => .ok ()

end SoyVerif.Model.CheckErr
