/-
  Wire form (S-expressions) of the syntax tree: decoder and encoder.  Driver code
  only (no theorems are stated about it); the same format is produced and read by
  harness/astwire.go, and the codec is validated by an echo correspondence.
-/
import SoyVerif.Base.SExp
import SoyVerif.Model.Ast

namespace SoyVerif.Model.AstWire
open SoyVerif SExp

def aeTag : Autoescape → String
  | .unspecified => "u" | .on => "on" | .off => "off" | .contextual => "ctx"
def aeOf : String → Option Autoescape
  | "u" => some .unspecified | "on" => some .on | "off" => some .off | "ctx" => some .contextual
  | _ => none

/-! ### encoding -/

/-- insertion sort by key: the canonical order of a Go map on the wire -/
def sortByKey {α : Type} : List (Bytes × α) → List (Bytes × α)
  | [] => []
  | x :: xs =>
    let rec ins (x : Bytes × α) : List (Bytes × α) → List (Bytes × α)
      | [] => [x]
      | y :: ys => if Bytes.lt x.1 y.1 then x :: y :: ys else y :: ins x ys
    ins x (sortByKey xs)

mutual
  partial def encExpr : Expr → SExp
    | .null p => list [atom "null", nat p]
    | .bool p b => list [atom "bool", nat p, boolA b]
    | .int p v => list [atom "int", nat p, int v]
    | .float p bits => list [atom "float", nat p, nat bits.toNat]
    | .str p q v => list [atom "str", nat p, hex q, hex v]
    | .global p n => list [atom "global", nat p, hex n]
    | .func p n args => list ([atom "func", nat p, hex n] ++ args.toList.map encExpr)
    | .list p items => list ([atom "list", nat p] ++ items.toList.map encExpr)
    | .map p items => list ([atom "map", nat p] ++ (sortByKey items.toList).map fun (k, e) => list [hex k, encExpr e])
    | .dataRef p k acc => list ([atom "ref", nat p, hex k] ++ acc.toList.map encAccess)
    | .not p e => list [atom "not", nat p, encExpr e]
    | .neg p e => list [atom "neg", nat p, encExpr e]
    | .bin op p a b => list [atom op.tag, nat p, encExpr a, encExpr b]
    | .tern p c a b => list [atom "tern", nat p, encExpr c, encExpr a, encExpr b]
  partial def encAccess : Access → SExp
    | .key p ns k => list [atom "k", nat p, boolA ns, hex k]
    | .index p ns i => list [atom "i", nat p, boolA ns, int i]
    | .expr p ns e => list [atom "x", nat p, boolA ns, encExpr e]
end

def encOptExpr : Option Expr → SExp
  | none => list [atom "none"]
  | some e => encExpr e

mutual
  partial def encCmd : Cmd → SExp
    | .rawText p t => list [atom "raw", nat p, hex t]
    | .print p a dirs => list ([atom "print", nat p, encExpr a] ++
        dirs.map fun d => list ([atom "dir", nat d.pos, hex d.name] ++ d.args.map encExpr))
    | .msg p id m d bp body => list ([atom "msg", nat p, nat id, hex m, hex d, nat bp] ++ encParts body)
    | .css p e s => list [atom "css", nat p, encOptExpr e, hex s]
    | .debugger p => list [atom "debugger", nat p]
    | .log p b => list [atom "log", nat p, encBlock b]
    | .ifc p conds => list ([atom "if", nat p] ++ encConds conds)
    | .forc p v l b ie => list [atom "for", nat p, hex v, encExpr l, encBlock b,
        (match ie with | none => list [atom "none"] | some b => encBlock b)]
    | .switch p v cases => list ([atom "switch", nat p, encExpr v] ++ encCases cases)
    | .call p n all d params => list ([atom "call", nat p, hex n, boolA all, encOptExpr d] ++ encParams params)
    | .letValue p n e => list [atom "let", nat p, hex n, encExpr e]
    | .letContent p n b => list [atom "letc", nat p, hex n, encBlock b]
    | .headerParam p o n tp t d => list [atom "hparam", nat p, boolA o, hex n, nat tp, hex t, encOptExpr d]
    | .namespace p n ae => list [atom "namespace", nat p, hex n, atom (aeTag ae)]
    | .template p n b ae pr => list [atom "template", nat p, hex n, encBlock b, atom (aeTag ae), boolA pr]
    | .soyDoc p ps => list ([atom "soydoc", nat p] ++ ps.map fun q => list [atom "p", nat q.pos, hex q.name, boolA q.optional])
  partial def encBlock : Block → SExp
    | .mk p cmds => list ([atom "block", nat p] ++ encCmds cmds)
  partial def encCmds : CmdList → List SExp
    | .nil => []
    | .cons c r => encCmd c :: encCmds r
  partial def encConds : CondList → List SExp
    | .nil => []
    | .cons p c b r => list [atom "cond", nat p, encOptExpr c, encBlock b] :: encConds r
  partial def encCases : CaseList → List SExp
    | .nil => []
    | .cons p vs b r => list [atom "case", nat p, list (atom "vals" :: vs.map encExpr), encBlock b] :: encCases r
  partial def encParams : ParamList → List SExp
    | .nil => []
    | .value p k e r => list [atom "pv", nat p, hex k, encExpr e] :: encParams r
    | .content p k b r => list [atom "pc", nat p, hex k, encBlock b] :: encParams r
  partial def encParts : MsgParts → List SExp
    | .nil => []
    | .text p t r => list [atom "raw", nat p, hex t] :: encParts r
    | .ph p n b r => list [atom "ph", nat p, hex n,
        (match b with | .htmlTag tp t => list [atom "tag", nat tp, hex t] | .cmd c => encCmd c)] :: encParts r
    | .plural p vn v cases dp d r =>
        list ([atom "plural", nat p, hex vn, encExpr v] ++ encPlCases cases ++ [list ([atom "default", nat dp] ++ encParts d)]) :: encParts r
  partial def encPlCases : PluralCases → List SExp
    | .nil => []
    | .cons p v bp b r => list ([atom "case", nat p, int v, nat bp] ++ encParts b) :: encPlCases r
end

def encFile (f : SoyFile) : SExp := list ([atom "file", hex f.name] ++ f.body.map encCmd)

/-! ### decoding -/

mutual
  partial def decExpr : SExp → Option Expr
    | list [atom "null", p] => do pure (.null (← asNat p))
    | list [atom "bool", p, b] => do pure (.bool (← asNat p) (← asBool b))
    | list [atom "int", p, v] => do pure (.int (← asNat p) (← asInt v))
    | list [atom "float", p, b] => do pure (.float (← asNat p) (UInt64.ofNat (← asNat b)))
    | list [atom "str", p, q, v] => do pure (.str (← asNat p) (← asBytes q) (← asBytes v))
    | list [atom "global", p, n] => do pure (.global (← asNat p) (← asBytes n))
    | list (atom "func" :: p :: n :: args) => do
        pure (.func (← asNat p) (← asBytes n) (ExprList.ofList (← args.mapM decExpr)))
    | list (atom "list" :: p :: items) => do
        pure (.list (← asNat p) (ExprList.ofList (← items.mapM decExpr)))
    | list (atom "map" :: p :: items) => do
        let kvs ← items.mapM fun it => match it with
          | list [k, e] => do pure ((← asBytes k), (← decExpr e))
          | _ => none
        pure (.map (← asNat p) (MapItems.ofList kvs))
    | list (atom "ref" :: p :: k :: acc) => do
        pure (.dataRef (← asNat p) (← asBytes k) (AccessList.ofList (← acc.mapM decAccess)))
    | list [atom "not", p, e] => do pure (.not (← asNat p) (← decExpr e))
    | list [atom "neg", p, e] => do pure (.neg (← asNat p) (← decExpr e))
    | list [atom "tern", p, c, a, b] => do pure (.tern (← asNat p) (← decExpr c) (← decExpr a) (← decExpr b))
    | list [atom op, p, a, b] => do
        let o ← BinOp.ofTag op
        pure (.bin o (← asNat p) (← decExpr a) (← decExpr b))
    | _ => none
  partial def decAccess : SExp → Option Access
    | list [atom "k", p, ns, k] => do pure (.key (← asNat p) (← asBool ns) (← asBytes k))
    | list [atom "i", p, ns, i] => do pure (.index (← asNat p) (← asBool ns) (← asInt i))
    | list [atom "x", p, ns, e] => do pure (.expr (← asNat p) (← asBool ns) (← decExpr e))
    | _ => none
end

def decOptExpr : SExp → Option (Option Expr)
  | list [atom "none"] => some none
  | e => (decExpr e).map some

mutual
  partial def decCmd : SExp → Option Cmd
    | list [atom "raw", p, t] => do pure (.rawText (← asNat p) (← asBytes t))
    | list (atom "print" :: p :: a :: dirs) => do
        let ds ← dirs.mapM fun d => match d with
          | list (atom "dir" :: dp :: n :: args) => do
              pure ({ pos := (← asNat dp), name := (← asBytes n), args := (← args.mapM decExpr) } : Directive)
          | _ => none
        pure (.print (← asNat p) (← decExpr a) ds)
    | list (atom "msg" :: p :: id :: m :: d :: bp :: parts) => do
        pure (.msg (← asNat p) (← asNat id) (← asBytes m) (← asBytes d) (← asNat bp) (← decParts parts))
    | list [atom "css", p, e, s] => do pure (.css (← asNat p) (← decOptExpr e) (← asBytes s))
    | list [atom "debugger", p] => do pure (.debugger (← asNat p))
    | list [atom "log", p, b] => do pure (.log (← asNat p) (← decBlock b))
    | list (atom "if" :: p :: conds) => do pure (.ifc (← asNat p) (← decConds conds))
    | list [atom "for", p, v, l, b, ie] => do
        let ie' ← (match ie with
          | list [atom "none"] => some none
          | b => (decBlock b).map some : Option (Option Block))
        pure (.forc (← asNat p) (← asBytes v) (← decExpr l) (← decBlock b) ie')
    | list (atom "switch" :: p :: v :: cases) => do pure (.switch (← asNat p) (← decExpr v) (← decCases cases))
    | list (atom "call" :: p :: n :: all :: d :: params) => do
        pure (.call (← asNat p) (← asBytes n) (← asBool all) (← decOptExpr d) (← decParams params))
    | list [atom "let", p, n, e] => do pure (.letValue (← asNat p) (← asBytes n) (← decExpr e))
    | list [atom "letc", p, n, b] => do pure (.letContent (← asNat p) (← asBytes n) (← decBlock b))
    | list [atom "hparam", p, o, n, tp, t, d] => do
        pure (.headerParam (← asNat p) (← asBool o) (← asBytes n) (← asNat tp) (← asBytes t) (← decOptExpr d))
    | list [atom "namespace", p, n, atom ae] => do pure (.namespace (← asNat p) (← asBytes n) (← aeOf ae))
    | list [atom "template", p, n, b, atom ae, pr] => do
        pure (.template (← asNat p) (← asBytes n) (← decBlock b) (← aeOf ae) (← asBool pr))
    | list (atom "soydoc" :: p :: ps) => do
        let qs ← ps.mapM fun q => match q with
          | list [atom "p", qp, n, o] => do pure ({ pos := (← asNat qp), name := (← asBytes n), optional := (← asBool o) } : SoyDocParam)
          | _ => none
        pure (.soyDoc (← asNat p) qs)
    | _ => none
  partial def decBlock : SExp → Option Block
    | list (atom "block" :: p :: cmds) => do pure (.mk (← asNat p) (CmdList.ofList (← cmds.mapM decCmd)))
    | _ => none
  partial def decConds : List SExp → Option CondList
    | [] => some .nil
    | list [atom "cond", p, c, b] :: r => do pure (.cons (← asNat p) (← decOptExpr c) (← decBlock b) (← decConds r))
    | _ => none
  partial def decCases : List SExp → Option CaseList
    | [] => some .nil
    | list [atom "case", p, list (atom "vals" :: vs), b] :: r => do
        pure (.cons (← asNat p) (← vs.mapM decExpr) (← decBlock b) (← decCases r))
    | _ => none
  partial def decParams : List SExp → Option ParamList
    | [] => some .nil
    | list [atom "pv", p, k, e] :: r => do pure (.value (← asNat p) (← asBytes k) (← decExpr e) (← decParams r))
    | list [atom "pc", p, k, b] :: r => do pure (.content (← asNat p) (← asBytes k) (← decBlock b) (← decParams r))
    | _ => none
  partial def decParts : List SExp → Option MsgParts
    | [] => some .nil
    | list [atom "raw", p, t] :: r => do pure (.text (← asNat p) (← asBytes t) (← decParts r))
    | list [atom "ph", p, n, b] :: r => do
        let body ← (match b with
          | list [atom "tag", tp, t] => do pure (MsgPhBody.htmlTag (← asNat tp) (← asBytes t))
          | c => (decCmd c).map MsgPhBody.cmd : Option MsgPhBody)
        pure (.ph (← asNat p) (← asBytes n) body (← decParts r))
    | list (atom "plural" :: p :: vn :: v :: rest) :: r => do
        let (cs, dflt) ← splitPlural rest
        let (dp, d) ← dflt
        pure (.plural (← asNat p) (← asBytes vn) (← decExpr v) cs dp d (← decParts r))
    | _ => none
  partial def splitPlural : List SExp → Option (PluralCases × Option (Nat × MsgParts))
    | [list (atom "default" :: dp :: parts)] => do pure (.nil, some ((← asNat dp), (← decParts parts)))
    | list (atom "case" :: p :: v :: bp :: parts) :: r => do
        let (cs, d) ← splitPlural r
        pure (.cons (← asNat p) (← asInt v) (← asNat bp) (← decParts parts) cs, d)
    | _ => none
end

def decFile : SExp → Option (Bytes × List Cmd)
  | list (atom "file" :: n :: cmds) => do pure ((← asBytes n), (← cmds.mapM decCmd))
  | _ => none

end SoyVerif.Model.AstWire
