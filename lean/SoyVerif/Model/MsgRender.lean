/-
  Model of the RENDER side of translations (C11):
    soyhtml/exec.go   evalMsg, evalMsgParts, findPluralNode, walkPlural, walkMsgBody
    ast/node.go       MsgNode.Placeholder(name)
    soymsg/pomsg      Validate, Msgid, MsgidPlural (msgid.go), newMessage (pomsg.go)

  Abstraction: rendering a placeholder body is a function `ρ` of its source text
  (`node.String()`; in one environment nodes with equal source text render equally —
  C17's injectivity is what justifies treating the printed text as the expression), the
  value of a plural is a function `ν` of the plural node's source text, and the bundle's
  `PluralCase` is `sel`.  Errors (`s.errorf`, index panics) are `none`; only the class is
  observed, not the partial output written before the error.
-/
import SoyVerif.Model.Msg

namespace SoyVerif.Model.Msg

/-- A message body after `setPlaceholderNames`: names AND source texts. -/
inductive RPart where
  | text (b : Bytes)
  | ph (name src : Bytes)
  | plural (varName src : Bytes) (cases : List (Int × List RPart)) (dflt : List RPart)

mutual
def annot (nm : Bytes → Bytes → Bytes) : Part → RPart
  | .text b => .text b
  | .ph base src => .ph (nm base src) src
  | .plural base src cs d => .plural (nm base src) src (annotCases nm cs) (annotList nm d)
def annotList (nm : Bytes → Bytes → Bytes) : List Part → List RPart
  | [] => []
  | p :: ps => annot nm p :: annotList nm ps
def annotCases (nm : Bytes → Bytes → Bytes) : List (Int × List Part) → List (Int × List RPart)
  | [] => []
  | (v, b) :: cs => (v, annotList nm b) :: annotCases nm cs
end

/-- the body as the renderer sees it after compilation -/
def rbody (o : Orders) (body : List Part) : List RPart :=
  annotList (nameFor (queue body) (setNames o body)) body

mutual
def RPart.toN : RPart → NPart
  | .text b => .text b
  | .ph n _ => .ph n
  | .plural v _ cs d => .plural v (toNCases cs) (toNList d)
def toNList : List RPart → List NPart
  | [] => []
  | p :: ps => p.toN :: toNList ps
def toNCases : List (Int × List RPart) → List (Int × List NPart)
  | [] => []
  | (v, b) :: cs => (v, toNList b) :: toNCases cs
end

/-! ## walkMsgBody / walkPlural: rendering the source -/

mutual
def renderSrc (ρ : Bytes → Bytes) (ν : Bytes → Int) : RPart → Bytes
  | .text b => b
  | .ph _ s => ρ s
  | .plural _ s cs d =>
    match renderSrcCases ρ ν (ν s) cs with
    | some out => out
    | none => renderSrcList ρ ν d
/-- `walkMsgBody` -/
def renderSrcList (ρ : Bytes → Bytes) (ν : Bytes → Int) : List RPart → Bytes
  | [] => []
  | p :: ps => renderSrc ρ ν p ++ renderSrcList ρ ν ps
/-- `for _, pluralCase := range node.Cases { if int(intVal) == pluralCase.Value { … return } }` -/
def renderSrcCases (ρ : Bytes → Bytes) (ν : Bytes → Int) (v : Int) : List (Int × List RPart) → Option Bytes
  | [] => none
  | (k, b) :: cs => if v == k then some (renderSrcList ρ ν b) else renderSrcCases ρ ν v cs
end

/-- rendering without a bundle, or a message the bundle does not have -/
def renderSource (ρ : Bytes → Bytes) (ν : Bytes → Int) (R : List RPart) : Bytes := renderSrcList ρ ν R

/-! ## MsgNode.Placeholder(name)

The Go queue holds nodes of four kinds that matter: body children, `MsgPluralCaseNode`s
(whose only child is their body list), body lists (`ListNode`: a case body or the default)
and the plural's value expression, whose descendants are expression nodes and never
placeholders (omitted).  Note the order this gives: the children of `Default` are reached
one step earlier than the children of the case bodies. -/

inductive PItem where
  | part (p : RPart)
  | caseNode (body : List RPart)
  | list (ps : List RPart)

/-- the source text of the first placeholder named `name` in queue order -/
def phSearch (name : Bytes) : Nat → List PItem → Option Bytes
  | 0, _ => none
  | _ + 1, [] => none
  | f + 1, .part (.text _) :: q => phSearch name f q
  | f + 1, .part (.ph n s) :: q => if n == name then some s else phSearch name f q
  | f + 1, .part (.plural _ _ cs d) :: q =>
    phSearch name f (q ++ cs.map (fun c => .caseNode c.2) ++ [.list d])
  | f + 1, .caseNode b :: q => phSearch name f (q ++ [.list b])
  | f + 1, .list ps :: q => phSearch name f (q ++ ps.map .part)

mutual
/-- number of queue items a node gives rise to -/
def RPart.weight : RPart → Nat
  | .text _ => 1
  | .ph _ _ => 1
  | .plural _ _ cs d => 2 + weightCases cs + weightList d
def weightList : List RPart → Nat
  | [] => 0
  | p :: ps => p.weight + weightList ps
def weightCases : List (Int × List RPart) → Nat
  | [] => 0
  | (_, b) :: cs => 2 + weightList b + weightCases cs
end

/-- `msgNode.Placeholder(name)`: source text of the node found, `none` = nil -/
def placeholder (name : Bytes) (R : List RPart) : Option Bytes :=
  phSearch name (weightList R + 1) (R.map .part)

/-- `findPluralNode`: top-level children only; the source text of the plural found -/
def findPluralNode (varName : Bytes) : List RPart → Option Bytes
  | [] => none
  | .plural v s _ _ :: r => if v == varName then some s else findPluralNode varName r
  | _ :: r => findPluralNode varName r

/-! ## evalMsgParts: rendering a translation -/

/-- `soymsg.Part` -/
inductive TPart where
  | text (b : Bytes)
  | ph (name : Bytes)
  | plural (varName : Bytes) (cases : List (List TPart))

def TPart.ofMsgPart : MsgPart → TPart
  | .text b => .text b
  | .ph n => .ph n

def liftParts (ps : List MsgPart) : List TPart := ps.map TPart.ofMsgPart

mutual
def renderT (ρ : Bytes → Bytes) (ν : Bytes → Int) (sel : Int → Int) (R : List RPart) : TPart → Option Bytes
  | .text b => some b
  | .ph n => (placeholder n R).map ρ
  | .plural v cs =>
    match findPluralNode v R with
    | none => none
    | some s =>
      let idx := sel (ν s)
      if idx < 0 then none else renderTCase ρ ν sel R cs idx.toNat
/-- `evalMsgParts` -/
def renderTs (ρ : Bytes → Bytes) (ν : Bytes → Int) (sel : Int → Int) (R : List RPart) : List TPart → Option Bytes
  | [] => some []
  | t :: ts =>
    match renderT ρ ν sel R t, renderTs ρ ν sel R ts with
    | some a, some b => some (a ++ b)
    | _, _ => none
/-- `part.Cases[pluralCaseIndex]` with the bounds check -/
def renderTCase (ρ : Bytes → Bytes) (ν : Bytes → Int) (sel : Int → Int) (R : List RPart) : List (List TPart) → Nat → Option Bytes
  | [], _ => none
  | c :: _, 0 => renderTs ρ ν sel R c
  | _ :: cs, n + 1 => renderTCase ρ ν sel R cs n
end

def renderTranslated (ρ : Bytes → Bytes) (ν : Bytes → Int) (sel : Int → Int) (R : List RPart) (ps : List TPart) : Option Bytes :=
  renderTs ρ ν sel R ps

/-- `soymsg.Bundle` as far as rendering uses it -/
structure Bundle where
  message : UInt64 → Option (List TPart)
  pluralCase : Int → Int

/-- `evalMsg` -/
def evalMsg (ρ : Bytes → Bytes) (ν : Bytes → Int) (msgs : Option Bundle) (id : UInt64) (R : List RPart) : Option Bytes :=
  match msgs with
  | none => some (renderSource ρ ν R)
  | some b =>
    match b.message id with
    | none => some (renderSource ρ ν R)
    | some ps => renderTranslated ρ ν b.pluralCase R ps

/-! ## the PO layer (soymsg/pomsg) -/

/-- `writeph` -/
def writeph : RPart → Bytes
  | .text b => b
  | .ph n _ => 123 :: n ++ [125]
  | .plural _ _ _ _ => []

def writephList (ps : List RPart) : Bytes := ps.flatMap writeph

/-- `msgidn(n, singular)`; `none` = the index panic of `n.Cases[0]` on a plural without cases -/
def msgidn (R : List RPart) (singular : Bool) : Option Bytes :=
  match R with
  | [] => some []
  | .plural _ _ cs d :: _ =>
    if singular then
      match cs with
      | (_, b) :: _ => some (writephList b)
      | [] => none
    else some (writephList d)
  | _ => if singular then some (writephList R) else some []

def msgid (R : List RPart) : Option Bytes := msgidn R true
def msgidPlural (R : List RPart) : Option Bytes := msgidn R false

/-- `placeholderLike.Find(text) != nil`: some position starts a `{[A-Z0-9_]+}` -/
def containsPh : Bytes → Bool
  | [] => false
  | b :: r => (matchPh (b :: r)).isSome || containsPh r

/-- the buffer `validateText` builds: raw texts concatenated, a NUL for every other child -/
def litText : List RPart → Bytes
  | [] => []
  | .text t :: r => t ++ litText r
  | _ :: r => 0 :: litText r

/-- `validateText`: `true` = nil error -/
def validateText (body : List RPart) : Bool := !containsPh (litText body)

/-- the loop of `Validate` over the children -/
def validateFrom : Nat → List RPart → Bool
  | _, [] => true
  | i, .plural _ _ cs d :: r =>
    (i == 0) && (match cs with | [(v, b)] => v == 1 && validateText b | _ => false) && validateText d
      && validateFrom (i + 1) r
  | i, _ :: r => validateFrom (i + 1) r

/-- `Validate`: `true` = nil error -/
def validate (R : List RPart) : Bool := validateFrom 0 R && validateText R

/-- `newMessage(id, varName, msgstrs)` (the parts) -/
def newMessage (varName : Bytes) (msgstrs : List Bytes) : List TPart :=
  match varName, msgstrs with
  | [], [s] => liftParts (parts s)
  | _, _ => [.plural varName (msgstrs.map fun s => liftParts (parts s))]

/-- `untranslated(msg.Str)`: every msgstr is empty -/
def untranslated (msgstrs : List Bytes) : Bool := msgstrs.all (·.isEmpty)

/-- one PO entry in `newBundle`: untranslated entries are left out of the bundle -/
def loadEntry (varName : Bytes) (msgstrs : List Bytes) : Option (List TPart) :=
  if untranslated msgstrs then none else some (newMessage varName msgstrs)

/-- the bundle `newBundle` builds from a catalogue with one entry -/
def poBundle (id : UInt64) (varName : Bytes) (msgstrs : List Bytes) (sel : Int → Int) : Bundle :=
  ⟨fun i => if i == id then loadEntry varName msgstrs else none, sel⟩

end SoyVerif.Model.Msg
