/-
  Executable model of the HTML interpreter of soy:
    /repo/soyhtml/exec.go   (walk, evalPrint, evalMsg, evalCall, renderBlock, walkBlock, evalFunc, evalDataRef …)
    /repo/soyhtml/funcs.go  (loopFuncs, Funcs)
    /repo/soyhtml/scope.go  (scope: push / pop / set / lookup / alldata / enter / newScope)
    /repo/soyhtml/renderer.go (Execute), /repo/soyhtml/eval.go (EvalExpr), /repo/parsepasses/globals.go (SetGlobals)

  Conventions
  * `s.val` / `s.node` are implementation details of the Go code: expression evaluation is a function
    returning a value.  The ORDER of evaluation and the error behaviour are kept.
  * Every Go runtime panic inside `walk` (failed type assertion, index out of range, nil map, `%` by zero,
    `Undefined.String()`, the explicit panics of funcs.go) is caught by `errRecover` (renderer.go:70) and
    becomes an error: all of them are the one class `err` here.  Error kinds are not distinguished: no
    recover in exec.go resumes execution (evalPrint's, evalFunc's and evalCall's handlers all re-panic),
    so the only observable of an error is the output written before it.
  * Frames of a scope are Go *maps*, i.e. references.  They live in a heap (`St.heap`); a scope is a list
    of (reference, entered) pairs.  `alldata` shares the references of the caller's frames with the callee.
    Cells holding a map that the caller of `Execute` owns (the data map; a map value used through
    `data="$e"`) are marked `ro`; a `set` that reaches such a cell is counted in `St.foreign`
    (Props/C08 shows the counter stays 0 and the cell unchanged).
  * A scope is kept innermost frame FIRST (Go: innermost last); `push` = cons, `pop` = tail.
    The Go code's `s[:ri+1:ri+1]` (capacity-capped sub-slice) means the callee's `push` reallocates,
    i.e. never overwrites a slot of the caller's backing array: with immutable lists of references that
    is what cons does.
  * Lists and maps carry identities (Model/Value.lean); fresh ones are drawn from `next`.
  * Output: the list of chunks handed to the current writer, newest first (one chunk per Write call).
  * Fuel bounds the template call depth only (Go: the goroutine stack); everything else is structural.

  OUTSIDE THE MODEL: a {template} tag written INSIDE a template body (the parser accepts it; the registry does
  not register it).  Go walks the nested body in the current frame with the mode "the tag's autoescape
  attribute, else the enclosing mode" and restores the enclosing mode afterwards (exec.go `walk`, TemplateNode;
  /repo a6ffafc).  `execCmd` answers `error` for such a node (the mode flag is a fixed parameter of the model's
  walk), so every theorem about the model holds vacuously for bodies that contain one.  The construct is
  covered on the real code only, by oracles: C03 `nested-template-switches-escaping-off` and the C02exec
  family `nested-template-tag(impl-only)` (not sent to the model; the output the property demands is
  compared with the implementation's).
-/
import SoyVerif.Model.Ast
import SoyVerif.Model.Value
import SoyVerif.Model.Registry
import SoyVerif.Model.Directives

namespace SoyVerif.Model.Eval
open SoyVerif SoyVerif.Model

abbrev Frame := List (Bytes × Value)

/-- `m[k]` with the comma-ok form: presence, not definedness -/
def Frame.find : Frame → Bytes → Option Value
  | [], _ => none
  | (k', v) :: r, k => if k' == k then some v else Frame.find r k

/-! ## Expressions -/

/-- what an expression can see: `s.context.lookup`, `s.ij`, the globals substituted by SetGlobals -/
structure EEnv where
  lookup : Bytes → Value
  ij : Option (Nat × Frame)
  globals : Frame

/-- value and the next fresh identity, or the error class -/
inductive ERes where
  | ok (v : Value) (next : Nat)
  | err

def sIj : Bytes := [105, 106]
def sIndexSuffix : Bytes := [46, 105, 110, 100, 101, 120]                          -- ".index" (loopIndexSuffix)
def sLastIndexSuffix : Bytes := [46, 108, 97, 115, 116, 73, 110, 100, 101, 120]     -- ".lastIndex" (loopLastIndexSuffix)

def fIndex : Bytes := [105, 110, 100, 101, 120]
def fIsFirst : Bytes := [105, 115, 70, 105, 114, 115, 116]
def fIsLast : Bytes := [105, 115, 76, 97, 115, 116]
def fIsNonnull : Bytes := [105, 115, 78, 111, 110, 110, 117, 108, 108]
def fLength : Bytes := [108, 101, 110, 103, 116, 104]
def fKeys : Bytes := [107, 101, 121, 115]
def fAugmentMap : Bytes := [97, 117, 103, 109, 101, 110, 116, 77, 97, 112]
def fRound : Bytes := [114, 111, 117, 110, 100]
def fFloor : Bytes := [102, 108, 111, 111, 114]
def fCeiling : Bytes := [99, 101, 105, 108, 105, 110, 103]
def fMin : Bytes := [109, 105, 110]
def fMax : Bytes := [109, 97, 120]
def fRandomInt : Bytes := [114, 97, 110, 100, 111, 109, 73, 110, 116]
def fStrContains : Bytes := [115, 116, 114, 67, 111, 110, 116, 97, 105, 110, 115]
def fRange : Bytes := [114, 97, 110, 103, 101]
def fHasData : Bytes := [104, 97, 115, 68, 97, 116, 97]

/-- `Funcs[name].ValidArgLengths` (funcs.go:41-55) -/
def funcArities (name : Bytes) : Option (List Nat) :=
  if name == fIsNonnull then some [1]
  else if name == fLength then some [1]
  else if name == fKeys then some [1]
  else if name == fAugmentMap then some [2]
  else if name == fRound then some [1, 2]
  else if name == fFloor then some [1]
  else if name == fCeiling then some [1]
  else if name == fMin then some [2]
  else if name == fMax then some [2]
  else if name == fRandomInt then some [1]
  else if name == fStrContains then some [2]
  else if name == fRange then some [1, 2, 3]
  else if name == fHasData then some [0]
  else none

def isLoopFunc (name : Bytes) : Bool := name == fIndex || name == fIsFirst || name == fIsLast

/-- exec.go toFloat: `none` = its panic -/
def toFloat : Value → Option F64
  | .int i => some (F64.ofInt64 i)
  | .float f => some f
  | _ => none

def isInt : Value → Bool
  | .int _ => true
  | _ => false

def isString : Value → Bool
  | .str _ => true
  | _ => false

def isNullish : Value → Bool
  | .null => true
  | .undefined => true
  | _ => false

/-- `v.String()` (`none` = the panic of Undefined.String) -/
def str (v : Value) : Option Bytes := Value.render v

/-- fresh identity for a list of the given length: `make(data.List, 0)` is the shared zero-size object -/
def listId (len next : Nat) : Nat × Nat := if len == 0 then (1, next) else (next, next + 1)

/-! ### funcs.go -/

def f64One : F64 := F64.ofNat 1
def f64Half : F64 := F64.div (F64.ofNat 1) (F64.ofNat 2)

/-- `math.Pow(10, float64(p))`: exact for 0 ≤ p ≤ 22 (Go's square-and-multiply on the mantissa is then
    exact), the correctly rounded quotient for −22 ≤ p < 0 (one division); outside that window the value
    of Go's algorithm is not modelled bit for bit (generators stay within |p| ≤ 15); saturation beyond
    the float range. -/
def pow10 (p : Int) : F64 :=
  if p > 400 then F64.inf false
  else if p < -400 then F64.zero
  else if p ≥ 0 then F64.ofNat (10 ^ p.toNat)
  else F64.div f64One (F64.ofNat (10 ^ (-p).toNat))

/-- `math.Round`: nearest integer, halves away from zero, computed exactly; NaN, ±Inf, ±0 pass through -/
def f64Round (x : F64) : F64 :=
  if x.isNaN || x.isInf || x.isZero then x
  else if 0 ≤ x.exp2 then x                      -- already an integer
  else
    let d := 2 ^ (-x.exp2).toNat
    let q := x.mant / d
    let q' := if 2 * (x.mant % d) ≥ d then q + 1 else q
    if q' == 0 then (if x.sign then F64.negZero else F64.zero) else F64.ofRat x.sign q' 1

/-- funcs.go round: `math.Round(x*pow) / pow` -/
def roundTo (x : F64) (p : Int) : F64 :=
  let pow := pow10 p
  F64.div (f64Round (F64.mul x pow)) pow

/-- `math.Min` -/
def f64Min (x y : F64) : F64 :=
  if (x.isInf && x.sign) || (y.isInf && y.sign) then F64.inf true
  else if x.isNaN || y.isNaN then F64.nan
  else if x.isZero && y.isZero then (if x.sign then x else y)
  else if F64.lt x y then x else y

/-- `math.Max` -/
def f64Max (x y : F64) : F64 :=
  if (x.isInf && !x.sign) || (y.isInf && !y.sign) then F64.inf false
  else if x.isNaN || y.isNaN then F64.nan
  else if x.isZero && y.isZero then (if x.sign then y else x)
  else if F64.lt y x then x else y

/-- `strings.Contains` on bytes -/
def isPrefix : Bytes → Bytes → Bool
  | [], _ => true
  | _ :: _, [] => false
  | a :: as, b :: bs => a == b && isPrefix as bs

def contains : Bytes → Bytes → Bool
  | [], sub => sub.isEmpty
  | b :: r, sub => isPrefix sub (b :: r) || contains r sub

/-- the elements of funcRange for a positive step: init, init+step, … below limit.
    (Go's `index += increment` wraps when `limit > MaxInt64 − step`; that region is not modelled.) -/
def rangeItems (init limit step : Int) : List Value :=
  if limit ≤ init ∨ step ≤ 0 then []
  else
    let count := ((limit - init) + step - 1) / step
    (List.range count.toNat).map fun (k : Nat) => Value.int (Int64.ofInt (init + (k : Int) * step))

def augment (m1 m2 : Frame) : Frame :=
  m2.foldl (fun acc kv => Value.insert acc kv.1 kv.2) (m1.foldl (fun acc kv => Value.insert acc kv.1 kv.2) [])

/-- `fn.Apply(args)` under evalFunc's recover; the arity has been checked. -/
def applyFunc (name : Bytes) (args : List Value) (next : Nat) : ERes :=
  if name == fIsNonnull then
    match args with
    | [v] => .ok (.bool (!isNullish v)) next
    | _ => .err
  else if name == fLength then
    match args with
    | [.list _ xs] => .ok (.int (Int64.ofInt xs.length)) next
    | _ => .err
  else if name == fKeys then
    match args with
    | [.map _ kvs] =>
      -- the keys in sorted order (`sort.Strings`); no key: the nil slice
      if kvs.isEmpty then .ok (.list 0 []) next
      else .ok (.list next ((Value.sortStrings (kvs.map fun kv => kv.1)).map Value.str)) (next + 1)
    | _ => .err
  else if name == fAugmentMap then
    match args with
    | [.map _ m1, .map _ m2] => .ok (.map next (augment m1 m2)) (next + 1)
    | _ => .err
  else if name == fRound then
    match args with
    | [.int i] => .ok (.int i) next                                  -- an integer is its own rounding
    | [x] => match toFloat x with
      | some f => .ok (.int (F64.toInt64Trunc (roundTo f 0))) next
      | none => .err
    | [.int i, .int p] =>
      if p.toInt == 0 then .ok (.int i) next
      else
        let r := roundTo (F64.ofInt64 i) p.toInt
        if p.toInt ≤ 0 then .ok (.int (F64.toInt64Trunc r)) next else .ok (.float r) next
    | [x, .int p] => match toFloat x with
      | some f =>
        let r := roundTo f p.toInt
        if p.toInt ≤ 0 then .ok (.int (F64.toInt64Trunc r)) next else .ok (.float r) next
      | none => .err
    | _ => .err
  else if name == fFloor then
    match args with
    | [.int i] => .ok (.int i) next
    | [x] => match toFloat x with
      | some f => .ok (.int (F64.toInt64Trunc (F64.floor f))) next
      | none => .err
    | _ => .err
  else if name == fCeiling then
    match args with
    | [.int i] => .ok (.int i) next
    | [x] => match toFloat x with
      | some f => .ok (.int (F64.toInt64Trunc (F64.ceil f))) next
      | none => .err
    | _ => .err
  else if name == fMin then
    match args with
    | [.int a, .int b] => .ok (if a < b then .int a else .int b) next
    | [a, b] => match toFloat a, toFloat b with
      | some x, some y => .ok (.float (f64Min x y)) next
      | _, _ => .err
    | _ => .err
  else if name == fMax then
    match args with
    | [.int a, .int b] => .ok (if a > b then .int a else .int b) next
    | [a, b] => match toFloat a, toFloat b with
      | some x, some y => .ok (.float (f64Max x y)) next
      | _, _ => .err
    | _ => .err
  else if name == fStrContains then
    match args with
    | [.str a, .str b] => .ok (.bool (contains a b)) next
    | _ => .err
  else if name == fRange then
    let go (init limit step : Int) : ERes :=
      if step ≤ 0 then .err
      else
        let items := rangeItems init limit step
        if items.isEmpty then .ok (.list 0 []) next               -- nil slice
        else .ok (.list next items) (next + 1)
    match args with
    | [.int l] => go 0 l.toInt 1
    | [.int a, .int l] => go a.toInt l.toInt 1
    | [.int a, .int l, .int s] => go a.toInt l.toInt s.toInt
    | _ => .err
  else if name == fHasData then .ok (.bool true) next
  else .err     -- randomInt (global PRNG) is not modelled; unknown names are rejected before

/-- the loop functions (funcs.go:14-31) on the key of their first argument -/
def applyLoopFunc (env : EEnv) (name key : Bytes) (next : Nat) : ERes :=
  if name == fIndex then .ok (env.lookup (key ++ sIndexSuffix)) next
  else if name == fIsFirst then
    match env.lookup (key ++ sIndexSuffix) with
    | .int i => .ok (.bool (i == 0)) next
    | _ => .err
  else
    match env.lookup (key ++ sIndexSuffix), env.lookup (key ++ sLastIndexSuffix) with
    | .int i, .int l => .ok (.bool (i == l)) next
    | _, _ => .err

/-! ### binary operators (exec.go:228-288) -/

/-- the arithmetic and comparison cases on two evaluated operands (`and`/`or`/`?:` short-circuit and
    are handled by the evaluator itself) -/
def arith (op : BinOp) (a b : Value) : Option Value :=
  match op with
  | .add =>
    match a, b with
    | .int x, .int y => some (.int (x + y))
    | _, _ =>
      if isString a || isString b then
        match str a, str b with
        | some s1, some s2 => some (.str (s1 ++ s2))
        | _, _ => none
      else match toFloat a, toFloat b with
        | some x, some y => some (.float (F64.add x y))
        | _, _ => none
  | .sub =>
    match a, b with
    | .int x, .int y => some (.int (x - y))
    | _, _ => match toFloat a, toFloat b with
      | some x, some y => some (.float (F64.sub x y))
      | _, _ => none
  | .mul =>
    match a, b with
    | .int x, .int y => some (.int (x * y))
    | _, _ => match toFloat a, toFloat b with
      | some x, some y => some (.float (F64.mul x y))
      | _, _ => none
  | .div => match toFloat a, toFloat b with
    | some x, some y => some (.float (F64.div x y))
    | _, _ => none
  | .mod =>
    match a, b with
    | .int x, .int y => if y == 0 then none else some (.int (x % y))
    | _, _ => none
  | .lt => match toFloat a, toFloat b with
    | some x, some y => some (.bool (F64.lt x y))
    | _, _ => none
  | .le => match toFloat a, toFloat b with
    | some x, some y => some (.bool (F64.le x y))
    | _, _ => none
  | .gt => match toFloat a, toFloat b with
    | some x, some y => some (.bool (F64.lt y x))
    | _, _ => none
  | .ge => match toFloat a, toFloat b with
    | some x, some y => some (.bool (F64.le y x))
    | _, _ => none
  | _ => none

/-- does the operator require both operands to be defined (eval2def / evaldef)? -/
def needsDef : BinOp → Bool
  | .add | .sub | .mul | .div | .mod | .lt | .le | .gt | .ge => true
  | _ => false

/-! ### evalDataRef: one access step -/

inductive AStep where
  | cont (v : Value)     -- continue with the next access
  | ret (v : Value)      -- `return data.Null{}` of a null-safe access
  | err

/-- the `switch obj := ref.(type)` of evalDataRef: `index = some i` is `hasIndex` (a `.N` / `[int]` access),
    otherwise `key` is the key — "" and -1 are a key / an index like any other -/
def accessStep (ref : Value) (nullSafe : Bool) (index : Option Int) (key : Bytes) : AStep :=
  match ref with
  | .undefined => if nullSafe then .ret .null else .err
  | .null => if nullSafe then .ret .null else .err
  | .list _ xs =>
    match index with
    | none => .err                         -- "is a list, but was accessed with a non-integer index"
    | some i => .cont (Value.index xs i)
  | .map _ kvs =>
    match index with
    | some _ => .err                       -- "is a map, and requires a string key to access"
    | none => .cont (Value.key kvs key)
  | _ => .err

mutual
/-- `s.eval(node)` for an expression node -/
def evalE (env : EEnv) : Expr → Nat → ERes
  | .null _, n => .ok .null n
  | .bool _ b, n => .ok (.bool b) n
  | .int _ v, n => .ok (.int (Int64.ofInt v)) n
  | .float _ bits, n => .ok (.float ⟨bits⟩) n
  | .str _ _ v, n => .ok (.str v) n
  | .global _ name, n =>
    match Frame.find env.globals name with
    | some v => .ok v n
    | none => .err            -- a nil `GlobalNode.Value`: excluded by SetGlobals for compiled bundles
  | .func _ name args, n =>
    if isLoopFunc name then
      match args with
      | .cons (.dataRef _ key _) _ => applyLoopFunc env name key n
      | _ => .err             -- node.Args[0].(*ast.DataRefNode): index out of range / failed assertion
    else
      match funcArities name with
      | none => .err          -- unrecognized function name
      | some ar =>
        if !(ar.contains args.length) then .err
        else match evalArgs env args n with
          | none => .err
          | some (vs, n') => applyFunc name vs n'
  | .list _ items, n =>
    match evalArgs env items n with
    | none => .err
    | some (vs, n') =>
      let (id, n'') := listId vs.length n'
      .ok (.list id vs) n''
  | .map _ items, n =>
    match evalMapItems env items n with
    | none => .err
    | some (kvs, n') => .ok (.map n' kvs) (n' + 1)
  | .dataRef _ key acc, n =>
    if key == sIj then
      match env.ij with
      | none => .err          -- "Injected data not provided, yet referenced"
      | some (id, kvs) => evalAccesses env acc (.map id kvs) n
    else evalAccesses env acc (env.lookup key) n
  | .not _ a, n =>
    match evalE env a n with
    | .ok v n' => .ok (.bool (!v.truthy)) n'
    | .err => .err
  | .neg _ a, n =>
    match evalE env a n with
    | .ok (.int i) n' => .ok (.int (-i)) n'
    | .ok (.float f) n' => .ok (.float (F64.neg f)) n'
    | _ => .err               -- undefined (evaldef) or not a number
  | .bin op _ a b, n =>
    match op with
    | .and =>
      match evalE env a n with
      | .ok va n1 =>
        if va.truthy then
          match evalE env b n1 with
          | .ok vb n2 => .ok (.bool vb.truthy) n2
          | .err => .err
        else .ok (.bool false) n1
      | .err => .err
    | .or =>
      match evalE env a n with
      | .ok va n1 =>
        if va.truthy then .ok (.bool true) n1
        else match evalE env b n1 with
          | .ok vb n2 => .ok (.bool vb.truthy) n2
          | .err => .err
      | .err => .err
    | .elvis =>
      match evalE env a n with
      | .ok va n1 => if isNullish va then evalE env b n1 else .ok va n1
      | .err => .err
    | .eq =>
      match evalE env a n with
      | .ok va n1 => match evalE env b n1 with
        | .ok vb n2 => .ok (.bool (Value.equals va vb)) n2
        | .err => .err
      | .err => .err
    | .ne =>
      match evalE env a n with
      | .ok va n1 => match evalE env b n1 with
        | .ok vb n2 => .ok (.bool (!(Value.equals va vb))) n2
        | .err => .err
      | .err => .err
    | op =>
      -- eval2def: the first operand is evaluated and checked before the second is evaluated
      match evalE env a n with
      | .ok .undefined _ => .err
      | .ok va n1 =>
        match evalE env b n1 with
        | .ok .undefined _ => .err
        | .ok vb n2 =>
          match arith op va vb with
          | some v => .ok v n2
          | none => .err
        | .err => .err
      | .err => .err
  | .tern _ c a b, n =>
    match evalE env c n with
    | .ok vc n1 => if vc.truthy then evalE env a n1 else evalE env b n1
    | .err => .err
/-- `args[i] = s.eval(arg)` left to right -/
def evalArgs (env : EEnv) : ExprList → Nat → Option (List Value × Nat)
  | .nil, n => some ([], n)
  | .cons e r, n =>
    match evalE env e n with
    | .ok v n1 =>
      match evalArgs env r n1 with
      | some (vs, n2) => some (v :: vs, n2)
      | none => none
    | .err => none
/-- `for _, k := range keys { items[k] = s.eval(node.Items[k]) }` with `keys` sorted: the AST's items are in
    sorted key order (the converter and the wire format list a map literal's items by key), so the list
    order here is the evaluation order of the code. -/
def evalMapItems (env : EEnv) : MapItems → Nat → Option (Frame × Nat)
  | .nil, n => some ([], n)
  | .cons k e r, n =>
    match evalE env e n with
    | .ok v n1 =>
      match evalMapItems env r n1 with
      | some (kvs, n2) => some ((k, v) :: kvs, n2)
      | none => none
    | .err => none
/-- the access loop of evalDataRef -/
def evalAccesses (env : EEnv) : AccessList → Value → Nat → ERes
  | .nil, ref, n => .ok ref n
  | .cons (.key _ ns k) rest, ref, n =>
    match accessStep ref ns none k with
    | .cont v => evalAccesses env rest v n
    | .ret v => .ok v n
    | .err => .err
  | .cons (.index _ ns i) rest, ref, n =>
    match accessStep ref ns (some i) [] with
    | .cont v => evalAccesses env rest v n
    | .ret v => .ok v n
    | .err => .err
  | .cons (.expr _ ns e) rest, ref, n =>
    match evalE env e n with
    | .ok (.int i) n1 =>
      match accessStep ref ns (some i.toInt) [] with
      | .cont v => evalAccesses env rest v n1
      | .ret v => .ok v n1
      | .err => .err
    | .ok kv n1 =>
      match str kv with
      | none => .err          -- Undefined.String()
      | some k =>
        match accessStep ref ns none k with
        | .cont v => evalAccesses env rest v n1
        | .ret v => .ok v n1
        | .err => .err
    | .err => .err
end

/-! ### where an expression fails: `s.node` at the panic

  `walk` records the node it is at (`s.at(node)`); `eval` restores the previous node only on a NORMAL
  return.  So when an expression fails, `s.node` is the innermost node whose own processing failed: a
  node fails either because one of the children it evaluates fails (then the position is the child's) or
  by itself (its own position).  `errPosE env e n` is that position when `evalE env e n = .err` (and the
  node's own position otherwise).  It follows the evaluation order of `evalE`. -/

mutual
def errPosE (env : EEnv) : Expr → Nat → Nat
  | .null p, _ => p
  | .bool p _, _ => p
  | .int p _, _ => p
  | .float p _, _ => p
  | .str p _ _, _ => p
  | .global p _, _ => p
  | .func p name args, n =>
    if isLoopFunc name then p
    else match funcArities name with
      | none => p
      | some ar =>
        if !(ar.contains args.length) then p
        else match evalArgs env args n with
          | none => errPosArgs env args n p
          | some _ => p
  | .list p items, n =>
    match evalArgs env items n with
    | none => errPosArgs env items n p
    | some _ => p
  | .map p items, n =>
    match evalMapItems env items n with
    | none => errPosMap env items n p
    | some _ => p
  | .dataRef p key acc, n =>
    if key == sIj then
      match env.ij with
      | none => p
      | some (id, kvs) => errPosAcc env acc (.map id kvs) n p
    else errPosAcc env acc (env.lookup key) n p
  | .not p a, n =>
    match evalE env a n with
    | .err => errPosE env a n
    | _ => p
  | .neg p a, n =>
    match evalE env a n with
    | .err => errPosE env a n
    | _ => p
  | .bin op p a b, n =>
    match evalE env a n with
    | .err => errPosE env a n
    | .ok va n1 =>
      match op with
      | .and => if va.truthy then (match evalE env b n1 with | .err => errPosE env b n1 | _ => p) else p
      | .or => if va.truthy then p else (match evalE env b n1 with | .err => errPosE env b n1 | _ => p)
      | .elvis => if isNullish va then (match evalE env b n1 with | .err => errPosE env b n1 | _ => p) else p
      | .eq => match evalE env b n1 with | .err => errPosE env b n1 | _ => p
      | .ne => match evalE env b n1 with | .err => errPosE env b n1 | _ => p
      | _ =>
        match va with
        | .undefined => p                      -- evaldef(arg1) fails before arg2 is evaluated
        | _ => match evalE env b n1 with | .err => errPosE env b n1 | _ => p
  | .tern p c a b, n =>
    match evalE env c n with
    | .err => errPosE env c n
    | .ok vc n1 => if vc.truthy then (match evalE env a n1 with | .err => errPosE env a n1 | _ => p)
                   else (match evalE env b n1 with | .err => errPosE env b n1 | _ => p)
/-- the first failing argument (`own` if none fails) -/
def errPosArgs (env : EEnv) : ExprList → Nat → Nat → Nat
  | .nil, _, own => own
  | .cons e r, n, own =>
    match evalE env e n with
    | .err => errPosE env e n
    | .ok _ n1 => errPosArgs env r n1 own
/-- map literal values (Go ranges over the map in random order; the model's order is the key order) -/
def errPosMap (env : EEnv) : MapItems → Nat → Nat → Nat
  | .nil, _, own => own
  | .cons _ e r, n, own =>
    match evalE env e n with
    | .err => errPosE env e n
    | .ok _ n1 => errPosMap env r n1 own
def errPosAcc (env : EEnv) : AccessList → Value → Nat → Nat → Nat
  | .nil, _, _, own => own
  | .cons (.key _ ns k) rest, ref, n, own =>
    match accessStep ref ns none k with
    | .cont v => errPosAcc env rest v n own
    | _ => own
  | .cons (.index _ ns i) rest, ref, n, own =>
    match accessStep ref ns (some i) [] with
    | .cont v => errPosAcc env rest v n own
    | _ => own
  | .cons (.expr _ ns e) rest, ref, n, own =>
    match evalE env e n with
    | .err => errPosE env e n
    | .ok (.int i) n1 =>
      match accessStep ref ns (some i.toInt) [] with
      | .cont v => errPosAcc env rest v n1 own
      | _ => own
    | .ok kv n1 =>
      match str kv with
      | none => own
      | some k =>
        match accessStep ref ns none k with
        | .cont v => errPosAcc env rest v n1 own
        | _ => own
end

/-! ## Scopes (scope.go) over a heap of frames -/

/-- a Go map used as a scope frame.  `ro`: the map belongs to the caller of Execute -/
structure Cell where
  vars : Frame
  ro : Bool

/-- scopeframe: the map (by reference) and the `entered` mark -/
structure SFrame where
  ref : Nat
  entered : Bool
  deriving DecidableEq, Repr

/-- innermost frame first -/
abbrev Scope := List SFrame

structure St where
  heap : List Cell
  out : List Bytes        -- chunks handed to the current writer, newest first
  next : Nat              -- next fresh list / map identity
  foreign : Nat           -- number of `set`s that reached a caller-owned map
  node : Nat := 0         -- position of `s.node`: the node the CURRENT template's state is at
  impossible : Nat := 0   -- how often scope.alldata found no entered frame (its `panic("impossible")`)

def heapGet (heap : List Cell) (i : Nat) : Frame :=
  match heap[i]? with
  | some c => c.vars
  | none => []

/-- `vars[k] = v` on cell `i`; returns whether the cell is caller-owned -/
def heapSet : List Cell → Nat → Bytes → Value → List Cell × Bool
  | [], _, _, _ => ([], false)
  | c :: r, 0, k, v => ({ c with vars := Value.insert c.vars k v } :: r, c.ro)
  | c :: r, i + 1, k, v => let (r', ro) := heapSet r i k v; (c :: r', ro)

/-- scope.lookup: deepest frame first -/
def lookup (heap : List Cell) : Scope → Bytes → Value
  | [], _ => .undefined
  | f :: r, k =>
    match Frame.find (heapGet heap f.ref) k with
    | some v => v
    | none => lookup heap r k

/-- scope.push: a fresh empty map -/
def push (ctx : Scope) (st : St) : Scope × St :=
  (⟨st.heap.length, false⟩ :: ctx, { st with heap := st.heap ++ [⟨[], false⟩] })

/-- scope.pop (`none`: slicing an empty slice to [:-1] panics) -/
def pop : Scope → Option Scope
  | [] => none
  | _ :: r => some r

/-- scope.set (`none`: index -1 of an empty slice) -/
def set (ctx : Scope) (st : St) (k : Bytes) (v : Value) : Option St :=
  match ctx with
  | [] => none
  | f :: _ =>
    let (h, ro) := heapSet st.heap f.ref k v
    some { st with heap := h, foreign := if ro then st.foreign + 1 else st.foreign }

/-- scope.alldata: the frames up to the innermost entered one (`none`: panic("impossible")) -/
def alldata : Scope → Option Scope
  | [] => none
  | f :: r => if f.entered then some (f :: r) else alldata r

/-- scope.enter -/
def enter (ctx : Scope) (st : St) : Option (Scope × St) :=
  match ctx with
  | [] => none
  | f :: r => some (push ({ f with entered := true } :: r) st)

/-- newScope(m): a scope whose only frame is the map `m` -/
def newScope (m : Frame) (ro : Bool) (st : St) : Scope × St :=
  ([⟨st.heap.length, false⟩], { st with heap := st.heap ++ [⟨m, ro⟩] })

/-! ## Commands -/

inductive Cls where
  | ok | err | panic | fuelOut
  deriving DecidableEq, Repr

/-- outcome of walking a node: class, the scope and the state afterwards -/
structure R where
  cls : Cls
  ctx : Scope
  st : St

abbrev Run := Scope → St → R

/-! ### message bundles (soymsg.Bundle) -/

mutual
  /-- soymsg.Part -/
  inductive MPart where
    | raw (text : Bytes)
    | ph (name : Bytes)
    | plural (varName : Bytes) (cases : MCases)
  inductive MParts where
    | nil
    | cons (p : MPart) (rest : MParts)
  inductive MCases where
    | nil
    | cons (parts : MParts) (rest : MCases)
end

structure MsgBundle where
  message : Nat → Option MParts      -- Message(id).Parts
  pluralCase : Int → Int             -- PluralCase(n)

/-- everything a render is given and never changes -/
structure GEnv where
  reg : Registry.Reg
  globals : Frame
  ij : Option (Nat × Frame)
  msgs : Option MsgBundle
  tbl : Directives.Table
  oblig : List Bytes

def eenv (g : GEnv) (ctx : Scope) (st : St) : EEnv :=
  { lookup := lookup st.heap ctx, ij := g.ij, globals := g.globals }

/-- `s.eval(e)` in the current context -/
def evalIn (g : GEnv) (e : Expr) (ctx : Scope) (st : St) : Option (Value × St) :=
  match evalE (eenv g ctx st) e st.next with
  | .ok v n => some (v, { st with next := n })
  | .err => none

/-- `s.node` when `s.eval(e)` fails -/
def evalInPos (g : GEnv) (e : Expr) (ctx : Scope) (st : St) : Nat :=
  errPosE (eenv g ctx st) e st.next

/-- `s.at(node)` -/
def atNode (st : St) (p : Nat) : St := { st with node := p }

def write (st : St) (chunk : Bytes) : St := { st with out := chunk :: st.out }

/-- bytes of a buffer writer -/
def bufBytes (out : List Bytes) : Bytes := out.reverse.flatten

/-! ### htmlEscapeString: the sequence of Write calls -/

/-- `pending` = str[last:i] (reversed) -/
def escChunksGo : Bytes → Bytes → List Bytes
  | pending, [] => [pending.reverse]
  | pending, b :: r =>
    match htmlRepl b with
    | some e => pending.reverse :: e :: escChunksGo [] r
    | none => escChunksGo (b :: pending) r

def escChunks (s : Bytes) : List Bytes := escChunksGo [] s

def writeAll (st : St) (chunks : List Bytes) : St := chunks.foldl write st

/-! ### evalPrint -/

/-- evaluated directive arguments -/
def evalList (g : GEnv) (ctx : Scope) : List Expr → St → Option (List Value × St)
  | [], st => some ([], st)
  | e :: r, st =>
    match evalIn g e ctx st with
    | some (v, st1) =>
      match evalList g ctx r st1 with
      | some (vs, st2) => some (v :: vs, st2)
      | none => none
    | none => none

/-- `s.node` when `evalList` fails -/
def evalListPos (g : GEnv) (ctx : Scope) : List Expr → St → Nat
  | [], st => st.node
  | e :: r, st =>
    match evalIn g e ctx st with
    | some (_, st1) => evalListPos g ctx r st1
    | none => evalInPos g e ctx st

/-- a directive argument as the string-level directive model sees it: position 0 must be an Int
    (anything else makes insertWordBreaks / truncate panic — represented by a Bool), position 1 of
    truncate must be a Bool (anything else panics — represented by an Int). -/
def toArgs : List Value → List Directives.Arg
  | [] => []
  | a0 :: rest =>
    (match a0 with
     | .int i => Directives.Arg.int i.toInt
     | _ => Directives.Arg.bool false) ::
    rest.map fun a => match a with
      | .bool b => Directives.Arg.bool b
      | _ => Directives.Arg.int 0

/-! json.Marshal of a data.Value (directiveJson) -/

/-- strconv-style digits for encoding/json floats: 'f' for 1e-6 ≤ |x| < 1e21, else 'e' with the
    two-digit exponent cleaned up (e-07 → e-7) -/
def jsonFloat (x : F64) : Option Bytes :=
  if x.isNaN || x.isInf then none
  else if x.isZero then some (if x.sign then [45, 48] else [48])
  else
    let (c, k) := F64.shortest x
    let digs := F64.natDigits c
    let dp : Int := (digs.length : Int) + k          -- value = 0.d1d2… × 10^dp
    if -5 ≤ dp ∧ dp ≤ 21 then some (F64.fmtF x.sign digs dp)
    else
      -- 'e' formatting; encoding/json rewrites e-0d to e-d (and nothing else)
      let e := F64.fmtE x.sign digs dp
      some (match e.reverse with
        | d :: 48 :: 45 :: 101 :: r => (d :: 45 :: 101 :: r).reverse
        | _ => e)

def insertByKey {α : Type} (x : Bytes × α) : List (Bytes × α) → List (Bytes × α)
  | [] => [x]
  | y :: ys => if Value.bytesLe x.1 y.1 then x :: y :: ys else y :: insertByKey x ys

/-- entries in ascending key order -/
def sortByKey {α : Type} : List (Bytes × α) → List (Bytes × α)
  | [] => []
  | x :: xs => insertByKey x (sortByKey xs)

def joinC : List Bytes → Bytes
  | [] => []
  | [x] => x
  | x :: y :: r => x ++ [44] ++ joinC (y :: r)

mutual
def jsonValue : Value → Option Bytes
  | .undefined => some Value.sNull
  | .null => some Value.sNull
  | .bool b => some (if b then Value.sTrue else Value.sFalse)
  | .int i => some (F64.intDigits i.toInt)
  | .float f => jsonFloat f
  | .str s => some (jsonString s)
  | .list id xs =>
    if id == 0 then some Value.sNull
    else match jsonList xs with
      | some items => some ([91] ++ items ++ [93])
      | none => none
  | .map id kvs =>
    if id == 0 then some Value.sNull
    else match jsonKvs kvs with
      | some items => some ([123] ++ joinC ((sortByKey items).map (·.2)) ++ [125])
      | none => none
def jsonList : List Value → Option Bytes
  | [] => some []
  | [x] => jsonValue x
  | x :: y :: r => match jsonValue x, jsonList (y :: r) with
    | some a, some b => some (a ++ [44] ++ b)
    | _, _ => none
/-- (key, `"key":value`) items; encoding/json emits them in ascending key order -/
def jsonKvs : List (Bytes × Value) → Option (List (Bytes × Bytes))
  | [] => some []
  | (k, v) :: r => match jsonValue v, jsonKvs r with
    | some a, some b => some ((k, jsonString k ++ [58] ++ a) :: b)
    | _, _ => none
end

/-- `directive.Apply(result, args)` under evalPrint's recover, on a VALUE: `none` = error -/
def applyDirective (impl : Bytes) (v : Value) (args : List Value) : Option Value :=
  if impl == Directives.sDirectiveNoAutoescape then some v
  else if impl == Directives.sDirectiveJson then (jsonValue v).map Value.str
  else
    match str v with
    | none => none
    | some s =>
      -- directiveTruncate returns the VALUE itself when it fits
      let fits : Bool := impl == Directives.sDirectiveTruncate &&
        (match args with
         | .int m :: _ => decide ((s.length : Int) ≤ m.toInt)
         | _ => false)
      if fits then some v
      else match Directives.applyImpl impl s (toArgs args) with
        | .ok r => some (.str r)
        | _ => none

/-- the directive loop of evalPrint: result value and the escapeHtml flag -/
def runDirectives (g : GEnv) (ctx : Scope) : List Directive → Value → Bool → St → Option (Value × Bool × St)
  | [], v, esc, st => some (v, esc, st)
  | d :: ds, v, esc, st =>
    match Directives.lookup g.tbl d.name with
    | none => none
    | some entry =>
      if !Directives.checkNumArgs entry.arities d.args.length then none
      else match evalList g ctx d.args st with
        | none => none
        | some (args, st1) =>
          match applyDirective entry.impl v args with
          | none => none
          | some v' => runDirectives g ctx ds v' (if entry.cancel then false else esc) st1

/-- `s.node` when the directive loop fails: an argument's failing node, else where the state already is -/
def runDirectivesPos (g : GEnv) (ctx : Scope) : List Directive → Value → Bool → St → Nat
  | [], _, _, st => st.node
  | d :: ds, v, esc, st =>
    match Directives.lookup g.tbl d.name with
    | none => st.node
    | some entry =>
      if !Directives.checkNumArgs entry.arities d.args.length then st.node
      else match evalList g ctx d.args st with
        | none => evalListPos g ctx d.args st
        | some (args, st1) =>
          match applyDirective entry.impl v args with
          | none => st.node
          | some v' => runDirectivesPos g ctx ds v' (if entry.cancel then false else esc) st1

def obligDirs (pos : Nat) (names : List Bytes) : List Directive :=
  names.map fun n => { pos := pos, name := n, args := [] }

/-- evalPrint after `s.walk(node.Arg)` has moved the state to the argument node -/
def evalPrintAt (g : GEnv) (escapeHtml : Bool) (pos : Nat) (arg : Expr) (dirs : List Directive) : Run := fun ctx st =>
  match evalIn g arg ctx st with
  | none => ⟨.err, ctx, atNode st (evalInPos g arg ctx st)⟩
  | some (.undefined, st1) => ⟨.err, ctx, st1⟩
  | some (v, st1) =>
    match runDirectives g ctx (dirs ++ obligDirs pos g.oblig) v escapeHtml st1 with
    | none => ⟨.err, ctx, atNode st1 (runDirectivesPos g ctx (dirs ++ obligDirs pos g.oblig) v escapeHtml st1)⟩
    | some (r, esc, st2) =>
      match str r with
      | none => ⟨.err, ctx, st2⟩
      | some s => ⟨.ok, ctx, if esc then writeAll st2 (escChunks s) else write st2 s⟩

/-- evalPrint: the argument is walked directly (`s.walk(node.Arg)`, not `eval`), so the state stays at the
    argument node — also for the errors of the directive loop and of `String()` -/
def evalPrint (g : GEnv) (escapeHtml : Bool) (pos : Nat) (arg : Expr) (dirs : List Directive) : Run := fun ctx st =>
  evalPrintAt g escapeHtml pos arg dirs ctx (atNode st (Expr.pos arg))

/-! ### loops over runtime lists -/

/-- `if switchValue.Equals(s.eval(caseValueNode))` over the values of one case -/
def matchCase (g : GEnv) (ctx : Scope) (sv : Value) : List Expr → St → Option (Bool × St)
  | [], st => some (false, st)
  | e :: r, st =>
    match evalIn g e ctx st with
    | none => none
    | some (v, st1) => if Value.equals sv v then some (true, st1) else matchCase g ctx sv r st1

/-- `s.node` when `matchCase` fails -/
def matchCasePos (g : GEnv) (ctx : Scope) (sv : Value) : List Expr → St → Nat
  | [], st => st.node
  | e :: r, st =>
    match evalIn g e ctx st with
    | none => evalInPos g e ctx st
    | some (v, st1) => if Value.equals sv v then st1.node else matchCasePos g ctx sv r st1

/-- the iterations of a {foreach}: each in a frame of its own -/
def forLoop (body : Run) (var : Bytes) (last : Int) : List Value → Nat → Run
  | [], _, ctx, st => ⟨.ok, ctx, st⟩
  | item :: rest, i, ctx, st =>
    let (ctx1, st1) := push ctx st
    match set ctx1 st1 (var ++ sLastIndexSuffix) (.int (Int64.ofInt last)) with
    | none => ⟨.err, ctx1, st1⟩
    | some st2 =>
      match set ctx1 st2 var item with
      | none => ⟨.err, ctx1, st2⟩
      | some st3 =>
        match set ctx1 st3 (var ++ sIndexSuffix) (.int (Int64.ofInt i)) with
        | none => ⟨.err, ctx1, st3⟩
        | some st4 =>
          let r := body ctx1 st4
          match r.cls with
          | .ok =>
            match pop r.ctx with
            | none => ⟨.err, r.ctx, r.st⟩
            | some ctx2 => forLoop body var last rest (i + 1) ctx2 r.st
          | _ => r

/-! ### messages with a bundle (evalMsgParts) -/

/-- findPluralNode: the first top-level plural child with that variable name -/
def findPlural : MsgParts → Bytes → Option Expr
  | .nil, _ => none
  | .text _ _ r, n => findPlural r n
  | .ph _ _ _ r, n => findPlural r n
  | .plural _ vn v _ _ _ r, n => if vn == n then some v else findPlural r n

/-- `MsgNode.Placeholder(name)` is a breadth-first search: of the placeholders with that name the one at
    the smallest depth wins, the first in document order among those. -/
def pickPh (name : Bytes) : List (Nat × Bytes × Run) → Option (Nat × Run) → Option Run
  | [], best => best.map (·.2)
  | (d, n, run) :: r, best =>
    if n == name then
      match best with
      | some (bd, _) => if d < bd then pickPh name r (some (d, run)) else pickPh name r best
      | none => pickPh name r (some (d, run))
    else pickPh name r best

mutual
def evalMParts (g : GEnv) (phs : List (Nat × Bytes × Run)) (body : MsgParts) : MParts → Run
  | .nil, ctx, st => ⟨.ok, ctx, st⟩
  | .cons (.raw t) rest, ctx, st => evalMParts g phs body rest ctx (write st t)
  | .cons (.ph name) rest, ctx, st =>
    match pickPh name phs none with
    | none => ⟨.err, ctx, st⟩
    | some run =>
      let r := run ctx st
      match r.cls with
      | .ok => evalMParts g phs body rest r.ctx r.st
      | _ => r
  | .cons (.plural vn cases) rest, ctx, st =>
    match findPlural body vn with
    | none => ⟨.err, ctx, st⟩
    | some ve =>
      match evalIn g ve ctx st with
      | some (.int i, st1) =>
        match g.msgs with
        | none => ⟨.err, ctx, st1⟩
        | some b =>
          let idx := b.pluralCase i.toInt
          if idx < 0 then ⟨.err, ctx, st1⟩
          else
            let r := evalMCases g phs body cases idx.toNat ctx st1
            match r.cls with
            | .ok => evalMParts g phs body rest r.ctx r.st
            | _ => r
      | some (_, st1) => ⟨.err, ctx, st1⟩
      | none => ⟨.err, ctx, atNode st (evalInPos g ve ctx st)⟩
def evalMCases (g : GEnv) (phs : List (Nat × Bytes × Run)) (body : MsgParts) : MCases → Nat → Run
  | .nil, _, ctx, st => ⟨.err, ctx, st⟩                  -- plural case index out of bounds
  | .cons parts _, 0, ctx, st => evalMParts g phs body parts ctx st
  | .cons _ rest, i + 1, ctx, st => evalMCases g phs body rest i ctx st
end

/-- `if defaultCase != nil { s.walkBlock(defaultCase.Body) }` after the case loop of a {switch} -/
def runDefault : Option Run → Run
  | some d, ctx, st => d ctx st
  | none, ctx, st => ⟨.ok, ctx, st⟩

/-- `if len(caseNode.Values) == 0 && defaultCase == nil { defaultCase = caseNode }` -/
def pickDefault (values : List Expr) (body : Run) (dflt : Option Run) : Option Run :=
  if values.isEmpty && dflt.isNone then some body else dflt

/-- walkBlock: push, walk, pop -/
def walkBlockOf (body : Run) : Run := fun ctx st =>
  let (ctx1, st1) := push ctx st
  let r := body ctx1 st1
  match r.cls with
  | .ok =>
    match pop r.ctx with
    | none => ⟨.err, r.ctx, r.st⟩
    | some ctx2 => ⟨.ok, ctx2, r.st⟩
  | _ => r

/-- `s.node = prev` at the end of renderBlock: only when the block ended normally (a panic inside leaves the
    state at the failing node) -/
def restoreNode (c : Cls) (prev : Nat) (s : St) : St := if c = .ok then atNode s prev else s

@[simp] theorem restoreNode_heap (c : Cls) (p : Nat) (s : St) : (restoreNode c p s).heap = s.heap := by
  unfold restoreNode; split <;> rfl
@[simp] theorem restoreNode_out (c : Cls) (p : Nat) (s : St) : (restoreNode c p s).out = s.out := by
  unfold restoreNode; split <;> rfl
@[simp] theorem restoreNode_next (c : Cls) (p : Nat) (s : St) : (restoreNode c p s).next = s.next := by
  unfold restoreNode; split <;> rfl
@[simp] theorem restoreNode_foreign (c : Cls) (p : Nat) (s : St) : (restoreNode c p s).foreign = s.foreign := by
  unfold restoreNode; split <;> rfl
@[simp] theorem restoreNode_impossible (c : Cls) (p : Nat) (s : St) : (restoreNode c p s).impossible = s.impossible := by
  unfold restoreNode; split <;> rfl
@[simp] theorem restoreNode_ok (p : Nat) (s : St) : restoreNode .ok p s = atNode s p := by simp [restoreNode]

/-- renderBlock: walkBlock with the writer swapped for a buffer; the buffer's bytes are returned and
    nothing reaches the main output.  `s.node` is saved before and restored after the block (the command
    that owns the block is still the one being executed: an error after the block is reported there).  On an
    error the writer and the node are NOT restored in Go (the state is abandoned); what the caller's writer
    received is what it had before. -/
def renderBlockOf (body : Run) (ctx : Scope) (st : St) : R × Bytes :=
  let r := walkBlockOf body ctx { st with out := [] }
  (⟨r.cls, r.ctx, restoreNode r.cls st.node { r.st with out := st.out }⟩, bufBytes r.st.out)

/-- evalCall: the scope the callee's params are bound in — data="all": the caller's frames up to the
    entered one plus a fresh frame; data="$e": that map plus a fresh frame; neither: a fresh map. -/
def callData (g : GEnv) (allData : Bool) (data : Option Expr) (ctx : Scope) (st : St) : Option (Scope × St) :=
  if allData then
    match alldata ctx with
    | none => none
    | some sc => some (push sc st)
  else match data with
    | some e =>
      match evalIn g e ctx st with
      | some (.map _ kvs, st1) =>
        let (sc, st2) := newScope kvs true st1
        some (push sc st2)
      | _ => none
    | none => some (newScope [] false st)

/-- ghost: a data="all" call whose scope has no entered frame is `panic("impossible")` in scope.alldata (an
    error like any other for the caller of Execute); it is counted so that Props/C02 can show it never happens -/
def noteImpossible (allData : Bool) (ctx : Scope) (st : St) : St :=
  if allData && (alldata ctx).isNone then { st with impossible := st.impossible + 1 } else st

/-- `s.node` when `callData` fails -/
def callDataPos (g : GEnv) (allData : Bool) (data : Option Expr) (ctx : Scope) (st : St) : Nat :=
  if allData then st.node
  else match data with
    | some e => (match evalIn g e ctx st with | none => evalInPos g e ctx st | some _ => st.node)
    | none => st.node

/-- ast.Node.Position() of a command -/
def cmdPos : Cmd → Nat
  | .rawText p _ | .print p _ _ | .msg p _ _ _ _ _ | .css p _ _ | .debugger p | .log p _ | .ifc p _
  | .forc p _ _ _ _ | .switch p _ _ | .call p _ _ _ _ | .letValue p _ _ | .letContent p _ _
  | .headerParam p _ _ _ _ _ | .namespace p _ _ | .template p _ _ _ _ | .soyDoc p _ => p

/-! ### the tree walk -/

/-- the effective `s.autoescape != AutoescapeOff` of a template's state -/
def escapeOf (t : Registry.Tmpl) : Bool :=
  (if t.autoescape != .unspecified then t.autoescape else t.nsAutoescape) != .off

section
variable (g : GEnv) (esc : Bool) (call : Registry.Tmpl → Run)

mutual
/-- `s.walk(node)` for a command node -/
def execCmd : Cmd → Run
  | .rawText _ text, ctx, st => ⟨.ok, ctx, write st text⟩
  | .print pos arg dirs, ctx, st => evalPrint g esc pos arg dirs ctx st
  | .msg _ id _ _ _ body, ctx, st =>
    -- evalMsg: the body is a block of its own (push … defer pop)
    walkBlockOf (fun ctx1 st1 =>
      match g.msgs with
      | none => walkMsgBody body ctx1 st1
      | some b =>
        match b.message id with
        | none => walkMsgBody body ctx1 st1
        | some parts => evalMParts g (phAll body 0) body parts ctx1 st1) ctx st
  | .css _ e suffix, ctx, st =>
    match e with
    | none => ⟨.ok, ctx, write st suffix⟩
    | some e =>
      match evalIn g e ctx st with
      | none => ⟨.err, ctx, atNode st (evalInPos g e ctx st)⟩
      | some (v, st1) =>
        match str v with
        | none => ⟨.err, ctx, st1⟩
        | some s => ⟨.ok, ctx, write st1 (s ++ [45] ++ suffix)⟩
  | .debugger _, ctx, st => ⟨.ok, ctx, st⟩
  | .log _ body, ctx, st =>
    let r := renderBlockOf (execBody body) ctx st
    ⟨r.1.cls, r.1.ctx, r.1.st⟩
  | .ifc _ conds, ctx, st => execConds conds ctx st
  | .forc _ var list body ifEmpty, ctx, st =>
    match evalIn g list ctx st with
    | some (.list _ xs, st1) =>
      if xs.isEmpty then
        match ifEmpty with
        | some b => walkBlockOf (execBody b) ctx st1
        | none => ⟨.ok, ctx, st1⟩
      else forLoop (execBody body) var ((xs.length : Int) - 1) xs 0 ctx st1
    | some (_, st1) => ⟨.err, ctx, st1⟩
    | none => ⟨.err, ctx, atNode st (evalInPos g list ctx st)⟩
  | .switch _ value cases, ctx, st =>
    match evalIn g value ctx st with
    | none => ⟨.err, ctx, atNode st (evalInPos g value ctx st)⟩
    | some (sv, st1) => execCases cases none sv ctx st1
  | .call _ name allData data params, ctx, st =>
    -- evalCall
    match Registry.lookup g.reg name with
    | none => ⟨.err, ctx, st⟩
    | some callee =>
      match callData g allData data ctx st with
      | none => ⟨.err, ctx, atNode (noteImpossible allData ctx st) (callDataPos g allData data ctx st)⟩
      | some (callData, st1) =>
        let r := execParams params callData ctx st1
        match r.cls with
        | .ok =>
          match enter callData r.st with
          | none => ⟨.err, r.ctx, r.st⟩
          | some (cctx, st2) =>
            let rc := call callee cctx st2
            -- the callee's scope AND its state are dropped (`state := &state{…}` in evalCall): the caller's
            -- context is what it was, and the caller's `s.node` is where it was — also while a panic of
            -- the callee propagates through the caller
            ⟨rc.cls, r.ctx, atNode rc.st r.st.node⟩
        | _ => r
  | .letValue _ name e, ctx, st =>
    match evalIn g e ctx st with
    | none => ⟨.err, ctx, atNode st (evalInPos g e ctx st)⟩
    | some (v, st1) =>
      match set ctx st1 name v with
      | none => ⟨.err, ctx, st1⟩
      | some st2 => ⟨.ok, ctx, st2⟩
  | .letContent _ name body, ctx, st =>
    let r := renderBlockOf (execBody body) ctx st
    match r.1.cls with
    | .ok =>
      match set r.1.ctx r.1.st name (.str r.2) with
      | none => ⟨.err, r.1.ctx, r.1.st⟩
      | some st2 => ⟨.ok, r.1.ctx, st2⟩
    | _ => r.1
  | .headerParam .., ctx, st => ⟨.ok, ctx, st⟩
  -- a /** */ comment inside a template body renders nothing (/repo 79017f3)
  | .soyDoc .., ctx, st => ⟨.ok, ctx, st⟩
  -- Go: "unknown node" for a {namespace} tag in a body.
  -- NOT FOLLOWED: a {template} tag inside a body — Go walks its body in the current frame with the mode
  -- `tag's autoescape attribute, else the enclosing mode`, restored afterwards (exec.go walk, TemplateNode);
  -- the model answers "error" (the mode is a fixed parameter of this walk; see Props/C03b)
  | .namespace .., ctx, st => ⟨.err, ctx, st⟩
  | .template .., ctx, st => ⟨.err, ctx, st⟩
/-- `s.walk(listNode)`: the children in order, in the current frame -/
def execBody : Block → Run
  | .mk p cmds, ctx, st => execCmds cmds ctx (atNode st p)
def execCmds : CmdList → Run
  | .nil, ctx, st => ⟨.ok, ctx, st⟩
  | .cons c rest, ctx, st =>
    let r := execCmd c ctx (atNode st (cmdPos c))
    match r.cls with
    | .ok => execCmds rest r.ctx r.st
    | _ => r
def execConds : CondList → Run
  | .nil, ctx, st => ⟨.ok, ctx, st⟩
  | .cons _ cond body rest, ctx, st =>
    match cond with
    | none => walkBlockOf (execBody body) ctx st
    | some c =>
      match evalIn g c ctx st with
      | none => ⟨.err, ctx, atNode st (evalInPos g c ctx st)⟩
      | some (v, st1) => if v.truthy then walkBlockOf (execBody body) ctx st1 else execConds rest ctx st1
/-- the case loop of a {switch}: the first case one of whose values equals the switch value runs and ends
    the search; the FIRST value-less case (`defaultCase`) is remembered and runs only when the loop ends
    without a match — the cases written after it are still tried, their values evaluated in order -/
def execCases : CaseList → Option Run → Value → Run
  | .nil, dflt, _, ctx, st => runDefault dflt ctx st
  | .cons _ values body rest, dflt, sv, ctx, st =>
    match matchCase g ctx sv values st with
    | none => ⟨.err, ctx, atNode st (matchCasePos g ctx sv values st)⟩
    | some (true, st1) => walkBlockOf (execBody body) ctx st1
    | some (false, st1) => execCases rest (pickDefault values (walkBlockOf (execBody body)) dflt) sv ctx st1
/-- the `for _, param := range node.Params` loop: values are evaluated (content rendered) in the
    CALLER's context and bound in the top frame of `callData` -/
def execParams : ParamList → Scope → Run
  | .nil, _, ctx, st => ⟨.ok, ctx, st⟩
  | .value _ key e rest, cd, ctx, st =>
    match evalIn g e ctx st with
    | none => ⟨.err, ctx, atNode st (evalInPos g e ctx st)⟩
    | some (v, st1) =>
      match set cd st1 key v with
      | none => ⟨.err, ctx, st1⟩
      | some st2 => execParams rest cd ctx st2
  | .content _ key body rest, cd, ctx, st =>
    let r := renderBlockOf (execBody body) ctx st
    match r.1.cls with
    | .ok =>
      match set cd r.1.st key (.str r.2) with
      | none => ⟨.err, r.1.ctx, r.1.st⟩
      | some st2 => execParams rest cd r.1.ctx st2
    | _ => r.1
/-- walkMsgBody (no bundle / message not in the bundle) -/
def walkMsgBody : MsgParts → Run
  | .nil, ctx, st => ⟨.ok, ctx, st⟩
  | .text p t rest, ctx, st => walkMsgBody rest ctx (write (atNode st p) t)
  | .ph _ _ body rest, ctx, st =>
    let r := execPh body ctx st
    match r.cls with
    | .ok => walkMsgBody rest r.ctx r.st
    | _ => r
  | .plural _ _ value cases _ dflt rest, ctx, st =>
    -- walkPlural
    match evalIn g value ctx st with
    | some (.int i, st1) =>
      let r := walkPluralCases cases (walkMsgBody dflt) i.toInt ctx st1
      match r.cls with
      | .ok => walkMsgBody rest r.ctx r.st
      | _ => r
    | some (_, st1) => ⟨.err, ctx, st1⟩
    | none => ⟨.err, ctx, atNode st (evalInPos g value ctx st)⟩
def walkPluralCases : PluralCases → Run → Int → Run
  | .nil, dflt, _, ctx, st => dflt ctx st
  | .cons _ v _ body rest, dflt, i, ctx, st =>
    if i == v then walkMsgBody body ctx st else walkPluralCases rest dflt i ctx st
/-- `s.walk(placeholder.Body)` -/
def execPh : MsgPhBody → Run
  | .htmlTag p text, ctx, st => ⟨.ok, ctx, write (atNode st p) text⟩
  | .cmd c, ctx, st => execCmd c ctx (atNode st (cmdPos c))
/-- all placeholders below a message body with their depth in the Go node tree, in document order -/
def phAll : MsgParts → Nat → List (Nat × Bytes × Run)
  | .nil, _ => []
  | .text _ _ rest, d => phAll rest d
  | .ph _ name body rest, d => (d, name, execPh body) :: phAll rest d
  | .plural _ _ _ cases _ dflt rest, d =>
    -- children of the plural node: value, case nodes (each one ListNode deeper), default ListNode
    phAllCases cases (d + 3) ++ phAll dflt (d + 2) ++ phAll rest d
def phAllCases : PluralCases → Nat → List (Nat × Bytes × Run)
  | .nil, _ => []
  | .cons _ _ _ body rest, d => phAll body d ++ phAllCases rest d
end
end

/-- a template invocation: `state.walk(calledTmpl.Node)` with the callee's own autoescape mode -/
def runTmpl (g : GEnv) : Nat → Registry.Tmpl → Run
  | 0, _, ctx, st => ⟨.fuelOut, ctx, st⟩
  | fuel + 1, t, ctx, st => execBody g (escapeOf t) (runTmpl g fuel) t.body ctx (atNode st t.pos)

/-! ### positions: what `errFromNode` slices the source with

  The top-level recover handler (`errRecover` → `errFromNode` → `Registry.LineNumber`) evaluates
  `src[:node.Position()]` for the node the ENTRY template's state was at, where `src` is the source
  registered under the entry template's name.  If that position exceeded `len(src)` the slice expression
  would panic inside the deferred handler and the panic would escape `Execute`.  `Registry.add` rejects
  duplicate template names, so `src` is the text of the template's own file and every position the
  parser assigned lies inside it.  The model keeps the obligation explicit: `posOk t` says every node
  the walk can be at (`posBlock`: expression, command, list, raw-text and html-tag nodes — the only
  positions `s.node` takes, Lemmas/EvalPos.lean) lies within its source, and `execute` turns an error into `panic` when it does not
  hold (a conservative over-approximation: Go panics only if the one node at fault is out of range). -/

mutual
def posE : Expr → List Nat
  | .null p | .bool p _ | .int p _ | .float p _ | .str p _ _ | .global p _ => [p]
  | .func p _ args => p :: posEs args
  | .list p items => p :: posEs items
  | .map p items => p :: posM items
  | .dataRef p _ acc => p :: posA acc
  | .not p a => p :: posE a
  | .neg p a => p :: posE a
  | .bin _ p a b => p :: (posE a ++ posE b)
  | .tern p c a b => p :: (posE c ++ (posE a ++ posE b))
def posEs : ExprList → List Nat
  | .nil => []
  | .cons e r => posE e ++ posEs r
def posM : MapItems → List Nat
  | .nil => []
  | .cons _ e r => posE e ++ posM r
def posA : AccessList → List Nat
  | .nil => []
  | .cons (.key _ _ _) r => posA r
  | .cons (.index _ _ _) r => posA r
  | .cons (.expr _ _ e) r => posE e ++ posA r
end


def posOpt : Option Expr → List Nat
  | none => []
  | some e => posE e

def posList : List Expr → List Nat
  | [] => []
  | e :: r => posE e ++ posList r

def posDirs : List Directive → List Nat
  | [] => []
  | d :: r => posList d.args ++ posDirs r

mutual
def posCmd : Cmd → List Nat
  | .rawText p _ => [p]
  | .print p a dirs => p :: (posE a ++ posDirs dirs)
  | .msg p _ _ _ _ body => p :: posParts body
  | .css p e _ => p :: posOpt e
  | .debugger p => [p]
  | .log p b => p :: posBlock b
  | .ifc p conds => p :: posConds conds
  | .forc p _ l b ie => p :: (posE l ++ (posBlock b ++ (match ie with | some b' => posBlock b' | none => [])))
  | .switch p v cases => p :: (posE v ++ posCases cases)
  | .call p _ _ d ps => p :: (posOpt d ++ posParams ps)
  | .letValue p _ e => p :: posE e
  | .letContent p _ b => p :: posBlock b
  | .headerParam p _ _ _ _ _ => [p]
  | .namespace p _ _ => [p]
  | .template p _ _ _ _ => [p]
  | .soyDoc p _ => [p]
def posBlock : Block → List Nat
  | .mk p cmds => p :: posCmds cmds
def posCmds : CmdList → List Nat
  | .nil => []
  | .cons c r => posCmd c ++ posCmds r
def posConds : CondList → List Nat
  | .nil => []
  | .cons _ c b r => posOpt c ++ (posBlock b ++ posConds r)
def posCases : CaseList → List Nat
  | .nil => []
  | .cons _ vs b r => posList vs ++ (posBlock b ++ posCases r)
def posParams : ParamList → List Nat
  | .nil => []
  | .value _ _ e r => posE e ++ posParams r
  | .content _ _ b r => posBlock b ++ posParams r
def posParts : MsgParts → List Nat
  | .nil => []
  | .text p _ r => p :: posParts r
  | .ph _ _ b r => posPh b ++ posParts r
  | .plural _ _ v cases _ d r => posE v ++ (posPl cases ++ (posParts d ++ posParts r))
def posPh : MsgPhBody → List Nat
  | .htmlTag p _ => [p]
  | .cmd c => posCmd c
def posPl : PluralCases → List Nat
  | .nil => []
  | .cons _ _ _ b r => posParts b ++ posPl r
end


/-- every node of the template lies within the source registered under its name -/
def posOk (t : Registry.Tmpl) : Bool := (t.pos :: posBlock t.body).all fun p => decide (p ≤ t.text.length)

/-! ## Entry points -/

structure Outcome where
  cls : Cls
  chunks : List Bytes      -- the Write calls on the caller's writer, in order
  data : Frame             -- the caller's data map afterwards
  foreign : Nat            -- writes that reached other caller-owned maps
  next : Nat
  -- on an error: what errFromNode reports (ErrFilePos); no position for ErrTemplateNotFound
  file : Bytes := []       -- Registry.Filename(entry template)
  pos : Nat := 0           -- position of the ENTRY state's `s.node`
  line : Nat := 0          -- Registry.LineNumber: 1 + number of line feeds in src[:pos]
  impossible : Nat := 0    -- ghost: failures of scope.alldata during the render

mutual
def maxIdFrame : Frame → Nat
  | [] => 0
  | (_, v) :: r => max (Value.maxId v) (maxIdFrame r)
end

/-- first identity not used by the inputs -/
def freshBase (g : GEnv) (data : Frame) : Nat :=
  max (max (maxIdFrame data) (maxIdFrame g.globals))
    (match g.ij with | some (id, kvs) => max id (maxIdFrame kvs) | none => 0) + 2

/-- Registry.LineNumber: `1 + strings.Count(src[:pos], "\n")` -/
def lineNumber (text : Bytes) (pos : Nat) : Nat := 1 + (text.take pos).count 10

/-- Renderer.Execute (renderer.go:38-73) -/
def execute (g : GEnv) (name : Bytes) (data : Frame) (fuel : Nat) : Outcome :=
  match Registry.lookup g.reg name with
  | none => { cls := .err, chunks := [], data := data, foreign := 0, next := 0 }   -- ErrTemplateNotFound
  | some t =>
    let st0 : St := { heap := [], out := [], next := freshBase g data, foreign := 0 }
    let (sc, st1) := newScope data true st0
    match enter sc st1 with
    | none => { cls := .err, chunks := [], data := data, foreign := 0, next := 0 }
    | some (ctx, st2) =>
      let r := runTmpl g fuel t ctx st2
      -- errRecover: the handler slices the entry template's source at the failing node's position
      let cls := match r.cls with
        | .err => if posOk t then Cls.err else Cls.panic
        | c => c
      { cls := cls, chunks := r.st.out.reverse, data := heapGet r.st.heap 0, foreign := r.st.foreign, next := r.st.next,
        file := t.file, pos := r.st.node, line := lineNumber t.text r.st.node, impossible := r.st.impossible }

/-- soyhtml.EvalExpr on an expression node: no template, no scope, no $ij, output discarded.
    (`errFromNode` has the nil-template guard, so the error path cannot panic.) -/
def evalExprEntry (globals : Frame) (e : Expr) : Option Value :=
  match evalE { lookup := fun _ => .undefined, ij := none, globals := globals } e (maxIdFrame globals + 2) with
  | .ok v _ => some v
  | .err => none

/-! ### SetGlobals: every global named in a template must be defined -/

mutual
def globalsE : Expr → List Bytes
  | .global _ n => [n]
  | .func _ _ args => globalsEs args
  | .list _ items => globalsEs items
  | .map _ items => globalsM items
  | .dataRef _ _ acc => globalsA acc
  | .not _ a => globalsE a
  | .neg _ a => globalsE a
  | .bin _ _ a b => globalsE a ++ globalsE b
  | .tern _ c a b => globalsE c ++ globalsE a ++ globalsE b
  | _ => []
def globalsEs : ExprList → List Bytes
  | .nil => []
  | .cons e r => globalsE e ++ globalsEs r
def globalsM : MapItems → List Bytes
  | .nil => []
  | .cons _ e r => globalsE e ++ globalsM r
def globalsA : AccessList → List Bytes
  | .nil => []
  | .cons (.expr _ _ e) r => globalsE e ++ globalsA r
  | .cons _ r => globalsA r
end

def globalsOpt : Option Expr → List Bytes
  | none => []
  | some e => globalsE e

def globalsList : List Expr → List Bytes
  | [] => []
  | e :: r => globalsE e ++ globalsList r

def globalsDirs : List Directive → List Bytes
  | [] => []
  | d :: r => globalsList d.args ++ globalsDirs r

mutual
def globalsCmd : Cmd → List Bytes
  | .print _ a dirs => globalsE a ++ globalsDirs dirs
  | .msg _ _ _ _ _ body => globalsParts body
  | .css _ e _ => globalsOpt e
  | .log _ b => globalsBlock b
  | .ifc _ conds => globalsConds conds
  | .forc _ _ l b ie => globalsE l ++ globalsBlock b ++ (match ie with | some b' => globalsBlock b' | none => [])
  | .switch _ v cases => globalsE v ++ globalsCases cases
  | .call _ _ _ d ps => globalsOpt d ++ globalsParams ps
  | .letValue _ _ e => globalsE e
  | .letContent _ _ b => globalsBlock b
  | .headerParam _ _ _ _ _ d => globalsOpt d
  | .template _ _ b _ _ => globalsBlock b
  | _ => []
def globalsBlock : Block → List Bytes
  | .mk _ cmds => globalsCmds cmds
def globalsCmds : CmdList → List Bytes
  | .nil => []
  | .cons c r => globalsCmd c ++ globalsCmds r
def globalsConds : CondList → List Bytes
  | .nil => []
  | .cons _ c b r => globalsOpt c ++ globalsBlock b ++ globalsConds r
def globalsCases : CaseList → List Bytes
  | .nil => []
  | .cons _ vs b r => globalsList vs ++ globalsBlock b ++ globalsCases r
def globalsParams : ParamList → List Bytes
  | .nil => []
  | .value _ _ e r => globalsE e ++ globalsParams r
  | .content _ _ b r => globalsBlock b ++ globalsParams r
def globalsParts : MsgParts → List Bytes
  | .nil => []
  | .text _ _ r => globalsParts r
  | .ph _ _ b r => globalsPh b ++ globalsParts r
  | .plural _ _ v cases _ d r => globalsE v ++ globalsPl cases ++ globalsParts d ++ globalsParts r
def globalsPh : MsgPhBody → List Bytes
  | .htmlTag .. => []
  | .cmd c => globalsCmd c
def globalsPl : PluralCases → List Bytes
  | .nil => []
  | .cons _ _ _ b r => globalsParts b ++ globalsPl r
end

/-- parsepasses.SetGlobals: error iff some global node of some template has no value.
    (The substitution itself is the `globals` component of the environment.) -/
def setGlobals (reg : Registry.Reg) (globals : Frame) : Bool :=
  reg.all fun t => (globalsBlock t.body).all fun n => (Frame.find globals n).isSome

/-! ### soy.ParseGlobals (globals.go): `<name> = <expression>` lines

  `bufio.Scanner` lines (split at LF, one trailing CR dropped), empty lines and lines starting with `//`
  skipped, the first `=` separates name and expression, both trimmed (ASCII white space is modelled;
  the lines the correspondence generates contain no other Unicode space), the expression is parsed by
  parse.Expr (the parsed trees are an input here: `some e`, or `none` where the parser rejects the text)
  and evaluated by EvalExpr with NO globals; a later line overwrites an earlier one of the same name. -/

def splitLines : Bytes → Bytes → List Bytes
  | cur, [] => if cur.isEmpty then [] else [cur.reverse]
  | cur, b :: r => if b == 10 then cur.reverse :: splitLines [] r else splitLines (b :: cur) r

def dropCR (l : Bytes) : Bytes :=
  match l.reverse with
  | 13 :: r => r.reverse
  | _ => l

def isSpaceB (b : UInt8) : Bool := b == 32 || b == 9 || b == 10 || b == 11 || b == 12 || b == 13

def trimSpace (s : Bytes) : Bytes := ((s.dropWhile isSpaceB).reverse.dropWhile isSpaceB).reverse

def splitEq : Bytes → Bytes → Option (Bytes × Bytes)
  | _, [] => none
  | acc, b :: r => if b == 61 then some (acc.reverse, r) else splitEq (b :: acc) r

/-- the loop of ParseGlobals over the lines; `trees` = the parse results of the expression texts met so far -/
def parseGlobalsLines : List Bytes → List (Option Expr) → Frame → Option Frame
  | [], _, acc => some acc
  | l :: rest, trees, acc =>
    let line := dropCR l
    if line.isEmpty || isPrefix [47, 47] line then parseGlobalsLines rest trees acc
    else match splitEq [] line with
      | none => none                                   -- "no equals on line"
      | some (name, _) =>
        match trees with
        | [] => none
        | none :: _ => none                            -- parse.Expr failed
        | some e :: trees' =>
          match evalExprEntry [] e with
          | none => none
          | some v => parseGlobalsLines rest trees' (Value.insert acc (trimSpace name) v)

def parseGlobals (input : Bytes) (trees : List (Option Expr)) : Option Frame :=
  parseGlobalsLines (splitLines [] input) trees []

end SoyVerif.Model.Eval
