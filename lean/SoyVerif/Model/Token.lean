/-
  Token types of parse/lexer.go (`itemType`), in declaration order, and the token
  record.  Constructor `tFoo` corresponds to Go's `itemFoo`; `ItemType.name` is the
  wire name used by the protocol (the same names as /repo/parse/verif_hooks.go).
-/
import SoyVerif.Base.Bytes

namespace SoyVerif.Model

inductive ItemType where
  | tInvalid
  | tEOF
  | tError
  | tLeftDelim
  | tRightDelim
  | tRightDelimEnd
  | tText
  | tEquals
  | tNull
  | tBool
  | tInteger
  | tFloat
  | tString
  | tComma
  | tColon
  | tPipe
  | tIdent
  | tDollarIdent
  | tDotIdent
  | tQuestionDotIdent
  | tDotIndex
  | tQuestionDotIndex
  | tLeftBracket
  | tRightBracket
  | tQuestionKey
  | tNegate
  | tMul
  | tDiv
  | tMod
  | tAdd
  | tSub
  | tEq
  | tNotEq
  | tGt
  | tGte
  | tLt
  | tLte
  | tNot
  | tOr
  | tAnd
  | tTernIf
  | tElvis
  | tLeftParen
  | tRightParen
  | tSoyDocStart
  | tSoyDocParam
  | tSoyDocOptionalParam
  | tSoyDocEnd
  | tComment
  | tHeaderParam
  | tHeaderOptionalParam
  | tHeaderParamType
  | tCommand
  | tAlias
  | tCall
  | tCase
  | tCss
  | tDefault
  | tDelcall
  | tDelpackage
  | tDeltemplate
  | tElse
  | tElseif
  | tFor
  | tForeach
  | tIf
  | tIfempty
  | tLet
  | tLiteral
  | tMsg
  | tNamespace
  | tParam
  | tPlural
  | tPrint
  | tSwitch
  | tTemplate
  | tLog
  | tDebugger
  | tSpecialChar
  | tSpace
  | tNil
  | tTab
  | tCarriageReturn
  | tNewline
  | tLeftBrace
  | tRightBrace
  | tCommandEnd
  | tCallEnd
  | tDelcallEnd
  | tDeltemplateEnd
  | tForEnd
  | tForeachEnd
  | tIfEnd
  | tLetEnd
  | tLiteralEnd
  | tMsgEnd
  | tParamEnd
  | tPluralEnd
  | tSwitchEnd
  | tTemplateEnd
  | tLogEnd
  deriving DecidableEq, Repr, Inhabited

namespace ItemType

def name : ItemType → String
  | tInvalid => "Invalid"
  | tEOF => "EOF"
  | tError => "Error"
  | tLeftDelim => "LeftDelim"
  | tRightDelim => "RightDelim"
  | tRightDelimEnd => "RightDelimEnd"
  | tText => "Text"
  | tEquals => "Equals"
  | tNull => "Null"
  | tBool => "Bool"
  | tInteger => "Integer"
  | tFloat => "Float"
  | tString => "String"
  | tComma => "Comma"
  | tColon => "Colon"
  | tPipe => "Pipe"
  | tIdent => "Ident"
  | tDollarIdent => "DollarIdent"
  | tDotIdent => "DotIdent"
  | tQuestionDotIdent => "QuestionDotIdent"
  | tDotIndex => "DotIndex"
  | tQuestionDotIndex => "QuestionDotIndex"
  | tLeftBracket => "LeftBracket"
  | tRightBracket => "RightBracket"
  | tQuestionKey => "QuestionKey"
  | tNegate => "Negate"
  | tMul => "Mul"
  | tDiv => "Div"
  | tMod => "Mod"
  | tAdd => "Add"
  | tSub => "Sub"
  | tEq => "Eq"
  | tNotEq => "NotEq"
  | tGt => "Gt"
  | tGte => "Gte"
  | tLt => "Lt"
  | tLte => "Lte"
  | tNot => "Not"
  | tOr => "Or"
  | tAnd => "And"
  | tTernIf => "TernIf"
  | tElvis => "Elvis"
  | tLeftParen => "LeftParen"
  | tRightParen => "RightParen"
  | tSoyDocStart => "SoyDocStart"
  | tSoyDocParam => "SoyDocParam"
  | tSoyDocOptionalParam => "SoyDocOptionalParam"
  | tSoyDocEnd => "SoyDocEnd"
  | tComment => "Comment"
  | tHeaderParam => "HeaderParam"
  | tHeaderOptionalParam => "HeaderOptionalParam"
  | tHeaderParamType => "HeaderParamType"
  | tCommand => "Command"
  | tAlias => "Alias"
  | tCall => "Call"
  | tCase => "Case"
  | tCss => "Css"
  | tDefault => "Default"
  | tDelcall => "Delcall"
  | tDelpackage => "Delpackage"
  | tDeltemplate => "Deltemplate"
  | tElse => "Else"
  | tElseif => "Elseif"
  | tFor => "For"
  | tForeach => "Foreach"
  | tIf => "If"
  | tIfempty => "Ifempty"
  | tLet => "Let"
  | tLiteral => "Literal"
  | tMsg => "Msg"
  | tNamespace => "Namespace"
  | tParam => "Param"
  | tPlural => "Plural"
  | tPrint => "Print"
  | tSwitch => "Switch"
  | tTemplate => "Template"
  | tLog => "Log"
  | tDebugger => "Debugger"
  | tSpecialChar => "SpecialChar"
  | tSpace => "Space"
  | tNil => "Nil"
  | tTab => "Tab"
  | tCarriageReturn => "CarriageReturn"
  | tNewline => "Newline"
  | tLeftBrace => "LeftBrace"
  | tRightBrace => "RightBrace"
  | tCommandEnd => "CommandEnd"
  | tCallEnd => "CallEnd"
  | tDelcallEnd => "DelcallEnd"
  | tDeltemplateEnd => "DeltemplateEnd"
  | tForEnd => "ForEnd"
  | tForeachEnd => "ForeachEnd"
  | tIfEnd => "IfEnd"
  | tLetEnd => "LetEnd"
  | tLiteralEnd => "LiteralEnd"
  | tMsgEnd => "MsgEnd"
  | tParamEnd => "ParamEnd"
  | tPluralEnd => "PluralEnd"
  | tSwitchEnd => "SwitchEnd"
  | tTemplateEnd => "TemplateEnd"
  | tLogEnd => "LogEnd"

def all : List ItemType := [
  .tInvalid, .tEOF, .tError, .tLeftDelim, .tRightDelim, .tRightDelimEnd, .tText, .tEquals, .tNull, .tBool, .tInteger, .tFloat, .tString, .tComma, .tColon, .tPipe, .tIdent, .tDollarIdent, .tDotIdent, .tQuestionDotIdent, .tDotIndex, .tQuestionDotIndex, .tLeftBracket, .tRightBracket, .tQuestionKey, .tNegate, .tMul, .tDiv, .tMod, .tAdd, .tSub, .tEq, .tNotEq, .tGt, .tGte, .tLt, .tLte, .tNot, .tOr, .tAnd, .tTernIf, .tElvis, .tLeftParen, .tRightParen, .tSoyDocStart, .tSoyDocParam, .tSoyDocOptionalParam, .tSoyDocEnd, .tComment, .tHeaderParam, .tHeaderOptionalParam, .tHeaderParamType, .tCommand, .tAlias, .tCall, .tCase, .tCss, .tDefault, .tDelcall, .tDelpackage, .tDeltemplate, .tElse, .tElseif, .tFor, .tForeach, .tIf, .tIfempty, .tLet, .tLiteral, .tMsg, .tNamespace, .tParam, .tPlural, .tPrint, .tSwitch, .tTemplate, .tLog, .tDebugger, .tSpecialChar, .tSpace, .tNil, .tTab, .tCarriageReturn, .tNewline, .tLeftBrace, .tRightBrace, .tCommandEnd, .tCallEnd, .tDelcallEnd, .tDeltemplateEnd, .tForEnd, .tForeachEnd, .tIfEnd, .tLetEnd, .tLiteralEnd, .tMsgEnd, .tParamEnd, .tPluralEnd, .tSwitchEnd, .tTemplateEnd, .tLogEnd]

def ofName (s : String) : Option ItemType := all.find? (fun t => t.name == s)

/-- position in the declaration order (Go's numeric value of the constant) -/
def ord (t : ItemType) : Nat := (all.findIdx? (· == t)).getD 0

/-- Go: `itemNegate <= t && t <= itemElvis` -/
def isOp (t : ItemType) : Bool := ItemType.tNegate.ord ≤ t.ord && t.ord ≤ ItemType.tElvis.ord

/-- Go: `t > itemCommandEnd` -/
def isCommandEnd (t : ItemType) : Bool := t.ord > ItemType.tCommandEnd.ord

end ItemType

/-- a token as the parser receives it from the lexer's channel -/
structure Item where
  typ : ItemType
  pos : Nat
  val : Bytes
  deriving DecidableEq, Repr, Inhabited

/-- the zero token a closed channel yields -/
def Item.zero : Item := { typ := .tInvalid, pos := 0, val := [] }

end SoyVerif.Model
