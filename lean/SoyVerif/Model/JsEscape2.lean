/-
  `jsEscapeFixed`: the JavaScript string escaper proposed for soy (soyhtml `escapeJsString` and
  soyjs string-literal emission).  It is text/template.JSEscape of the Go toolchain with three
  differences:

    1. a non-printable rune above 0xFFFF is written as a UTF-16 surrogate pair `\uD8xx\uDCxx`
       (Go prints `\u%04X` of the rune: five or six hex digits, which JavaScript reads as a
       four-digit escape followed by literal digits — the defect);
    2. U+2028 / U+2029 are escaped by an explicit test, not only because the Unicode tables of
       the toolchain say "not printable";
    3. a byte that is not part of well-formed UTF-8 is written as the escape `\uFFFD` instead of raw, so
       the output is always ASCII-safe, well-formed UTF-8.

  On every other input the output is byte-for-byte that of text/template.JSEscape (the ASCII
  escapes `<` … are produced by the same four-digit printer).  `isPrint` is a parameter:
  the theorems hold for every table.
-/
import SoyVerif.Model.Escape

namespace SoyVerif.Model

/-- four upper-case hex digits of u < 0x10000 (`%04X`) -/
def hex4Upper (u : Nat) : Bytes :=
  [hexUpper (u / 4096 % 16), hexUpper (u / 256 % 16), hexUpper (u / 16 % 16), hexUpper (u % 16)]

/-- `\uXXXX` -/
def jsU4 (u : Nat) : Bytes := [92, 117] ++ hex4Upper u

/-- a rune as one `\uXXXX`, or as a surrogate pair above 0xFFFF -/
def jsRuneEsc (r : Nat) : Bytes :=
  if r > 0xFFFF then
    jsU4 (0xD800 + (r - 0x10000) / 1024) ++ jsU4 (0xDC00 + (r - 0x10000) % 1024)
  else jsU4 r

/-- the ASCII branch: `\\`, `\'`, `\"`, everything else special as `\u00XX` -/
def jsAsciiEsc2 (c : UInt8) : Bytes :=
  if c == 92 then [92, 92]
  else if c == 39 then [92, 39]
  else if c == 34 then [92, 34]
  else jsU4 c.toNat

def jsEscapeFixedGo (isPrint : Nat → Bool) : Nat → Bytes → Bytes
  | _, [] => []
  | skip + 1, _ :: r => jsEscapeFixedGo isPrint skip r
  | 0, c :: r =>
    if !jsIsSpecial c then c :: jsEscapeFixedGo isPrint 0 r
    else if c < 0x80 then jsAsciiEsc2 c ++ jsEscapeFixedGo isPrint 0 r
    else
      let d := decodeRune (c :: r)
      (if d.1 == runeError && d.2 == 1 then jsU4 runeError
       else if d.1 != 0x2028 && d.1 != 0x2029 && isPrint d.1 then (c :: r).take d.2
       else jsRuneEsc d.1)
        ++ jsEscapeFixedGo isPrint (d.2 - 1) r

def jsEscapeFixedWith (isPrint : Nat → Bool) (s : Bytes) : Bytes := jsEscapeFixedGo isPrint 0 s

/-- with unicode.IsPrint of the toolchain in use -/
def jsEscapeFixed (s : Bytes) : Bytes := jsEscapeFixedWith isPrint s

end SoyVerif.Model
