/-
  The syntax tree of ast/node.go, as mutual inductive types with explicit list types
  (so that structural recursion and induction are available).

  Every node carries its byte position `pos` (ast.Pos).  Names and text are byte
  strings.  A Go map (`MapLiteralNode.Items`) is an association list with unique
  keys in parse order (a later duplicate key overwrites the earlier entry, as the
  Go map assignment does).
-/
import SoyVerif.Base.Bytes

namespace SoyVerif.Model

/-- the fourteen binary operators (ast.MulNode … ast.ElvisNode) -/
inductive BinOp where
  | mul | div | mod | add | sub | eq | ne | gt | ge | lt | le | or | and | elvis
  deriving DecidableEq, Repr, Inhabited

namespace BinOp
/-- the `Name` field of ast.BinaryOpNode -/
def sym : BinOp → Bytes
  | mul => [42] | div => [47] | mod => [37] | add => [43] | sub => [45]
  | eq => [61,61] | ne => [33,61] | gt => [62] | ge => [62,61] | lt => [60] | le => [60,61]
  | or => [111,114] | and => [97,110,100] | elvis => [63,58]
def all : List BinOp := [mul, div, mod, add, sub, eq, ne, gt, ge, lt, le, or, and, elvis]
def tag : BinOp → String
  | mul => "mul" | div => "div" | mod => "mod" | add => "add" | sub => "sub"
  | eq => "eq" | ne => "ne" | gt => "gt" | ge => "ge" | lt => "lt" | le => "le"
  | or => "or" | and => "and" | elvis => "elvis"
def ofTag (s : String) : Option BinOp := all.find? (fun o => o.tag == s)
end BinOp

mutual
  inductive Expr where
    | null (pos : Nat)
    | bool (pos : Nat) (b : Bool)
    | int (pos : Nat) (v : Int)
    | float (pos : Nat) (bits : UInt64)
    | str (pos : Nat) (quoted : Bytes) (value : Bytes)
    | global (pos : Nat) (name : Bytes)
    | func (pos : Nat) (name : Bytes) (args : ExprList)
    | list (pos : Nat) (items : ExprList)
    | map (pos : Nat) (items : MapItems)
    | dataRef (pos : Nat) (key : Bytes) (access : AccessList)
    | not (pos : Nat) (arg : Expr)
    | neg (pos : Nat) (arg : Expr)
    | bin (op : BinOp) (pos : Nat) (a b : Expr)
    | tern (pos : Nat) (c a b : Expr)
  inductive ExprList where
    | nil
    | cons (e : Expr) (rest : ExprList)
  inductive MapItems where
    | nil
    | cons (key : Bytes) (e : Expr) (rest : MapItems)
  inductive Access where
    | key (pos : Nat) (nullSafe : Bool) (k : Bytes)
    | index (pos : Nat) (nullSafe : Bool) (i : Int)
    | expr (pos : Nat) (nullSafe : Bool) (e : Expr)
  inductive AccessList where
    | nil
    | cons (a : Access) (rest : AccessList)
end

instance : Inhabited Expr := ⟨.null 0⟩

def ExprList.toList : ExprList → List Expr
  | .nil => []
  | .cons e r => e :: r.toList
def ExprList.ofList : List Expr → ExprList
  | [] => .nil
  | e :: r => .cons e (ExprList.ofList r)
def ExprList.length : ExprList → Nat
  | .nil => 0
  | .cons _ r => r.length + 1
def MapItems.toList : MapItems → List (Bytes × Expr)
  | .nil => []
  | .cons k e r => (k, e) :: r.toList
def MapItems.ofList : List (Bytes × Expr) → MapItems
  | [] => .nil
  | (k, e) :: r => .cons k e (MapItems.ofList r)
def AccessList.toList : AccessList → List Access
  | .nil => []
  | .cons a r => a :: r.toList
def AccessList.ofList : List Access → AccessList
  | [] => .nil
  | a :: r => .cons a (AccessList.ofList r)

/-- Go map assignment `items[key] = e`.  A Go map is modelled as an association list
    with unique keys kept in ascending key order (the canonical representative of the
    unordered map); code that ranges over the map takes an iteration order explicitly. -/
def MapItems.set : MapItems → Bytes → Expr → MapItems
  | .nil, k, e => .cons k e .nil
  | .cons k' e' r, k, e =>
    if k == k' then .cons k e r
    else if Bytes.lt k k' then .cons k e (.cons k' e' r)
    else .cons k' e' (MapItems.set r k e)

def Expr.pos : Expr → Nat
  | .null p | .bool p _ | .int p _ | .float p _ | .str p _ _ | .global p _ | .func p _ _
  | .list p _ | .map p _ | .dataRef p _ _ | .not p _ | .neg p _ | .bin _ p _ _ | .tern p _ _ _ => p

/-- ast.AutoescapeType -/
inductive Autoescape where
  | unspecified | on | off | contextual
  deriving DecidableEq, Repr, Inhabited

structure Directive where
  pos : Nat
  name : Bytes
  args : List Expr
  deriving Inhabited

structure SoyDocParam where
  pos : Nat
  name : Bytes
  optional : Bool
  deriving Repr, Inhabited, DecidableEq

mutual
  /-- template-level commands (ast nodes below a template body) -/
  inductive Cmd where
    | rawText (pos : Nat) (text : Bytes)
    | print (pos : Nat) (arg : Expr) (dirs : List Directive)
    | msg (pos : Nat) (id : Nat) (meaning desc : Bytes) (bodyPos : Nat) (body : MsgParts)
    | css (pos : Nat) (expr : Option Expr) (suffix : Bytes)
    | debugger (pos : Nat)
    | log (pos : Nat) (body : Block)
    | ifc (pos : Nat) (conds : CondList)
    | forc (pos : Nat) (var : Bytes) (list : Expr) (body : Block) (ifEmpty : Option Block)
    | switch (pos : Nat) (value : Expr) (cases : CaseList)
    | call (pos : Nat) (name : Bytes) (allData : Bool) (data : Option Expr) (params : ParamList)
    | letValue (pos : Nat) (name : Bytes) (e : Expr)
    | letContent (pos : Nat) (name : Bytes) (body : Block)
    | headerParam (pos : Nat) (optional : Bool) (name : Bytes) (typPos : Nat) (typ : Bytes) (dflt : Option Expr)
    -- file-level nodes (they may syntactically appear anywhere)
    | namespace (pos : Nat) (name : Bytes) (autoescape : Autoescape)
    | template (pos : Nat) (name : Bytes) (body : Block) (autoescape : Autoescape) (isPrivate : Bool)
    | soyDoc (pos : Nat) (params : List SoyDocParam)
  /-- ast.ListNode: position + nodes -/
  inductive Block where
    | mk (pos : Nat) (cmds : CmdList)
  inductive CmdList where
    | nil
    | cons (c : Cmd) (rest : CmdList)
  inductive CondList where
    | nil
    | cons (pos : Nat) (cond : Option Expr) (body : Block) (rest : CondList)
  inductive CaseList where
    | nil
    | cons (pos : Nat) (values : List Expr) (body : Block) (rest : CaseList)
  inductive ParamList where
    | nil
    | value (pos : Nat) (key : Bytes) (e : Expr) (rest : ParamList)
    | content (pos : Nat) (key : Bytes) (body : Block) (rest : ParamList)
  /-- children of a message body: raw text, placeholders, plurals -/
  inductive MsgParts where
    | nil
    | text (pos : Nat) (t : Bytes) (rest : MsgParts)
    | ph (pos : Nat) (name : Bytes) (body : MsgPhBody) (rest : MsgParts)
    | plural (pos : Nat) (varName : Bytes) (value : Expr) (cases : PluralCases) (dfltPos : Nat) (dflt : MsgParts) (rest : MsgParts)
  inductive MsgPhBody where
    | htmlTag (pos : Nat) (text : Bytes)
    | cmd (c : Cmd)
  inductive PluralCases where
    | nil
    | cons (pos : Nat) (value : Int) (bodyPos : Nat) (body : MsgParts) (rest : PluralCases)
end

instance : Inhabited Cmd := ⟨.debugger 0⟩
instance : Inhabited Block := ⟨.mk 0 .nil⟩

def CmdList.toList : CmdList → List Cmd
  | .nil => []
  | .cons c r => c :: r.toList
def CmdList.ofList : List Cmd → CmdList
  | [] => .nil
  | c :: r => .cons c (CmdList.ofList r)

def Block.pos : Block → Nat | .mk p _ => p
def Block.cmds : Block → CmdList | .mk _ c => c

/-- ast.SoyFileNode -/
structure SoyFile where
  name : Bytes
  text : Bytes
  body : List Cmd
  deriving Inhabited

end SoyVerif.Model
