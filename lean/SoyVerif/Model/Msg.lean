/-
  Model of soymsg/{id.go, placeholder.go, soymsg.go}: message fingerprints and ids,
  placeholder naming, the placeholder string and its split into parts.

  * `hash32` / `fingerprint` mirror id.go on `UInt32` (wrap-around arithmetic), the
    12-byte blocks, the fall-through tail switch and the 0/1 special case.
  * A message body is abstracted to what naming and ids depend on (`Part`): raw text,
    placeholders given by their base name (what `genBasePlaceholderName` returns) and
    their source text (`node.String()`, the equivalence used by the naming), plurals.
  * `setNames` mirrors `setPlaceholderNames` step by step.  Go pointers (map keys of
    `equivNodeToRepNodes`, `nodeToName`) are the position of the node in the
    breadth-first processing order (`QNode.id`).  Every `range` over a Go map takes an
    explicit iteration order (`Orders`); Go maps are association lists in insertion
    order with `mapSet` = `m[k] = v`.
  * The regexps of `toUpperUnderscore` and `Parts` are implemented by hand with Go's
    leftmost-first, non-overlapping `ReplaceAll` / `FindAll` semantics.  They work on
    bytes: every class used is ASCII, so a byte ≥ 0x80 never matches, exactly like the
    rune it belongs to.  `strings.ToUpper` is modelled on ASCII only (the correspondence
    for `toUpperUnderscore` is restricted to bytes < 0x80; message base names reach the
    naming model through the real `genBasePlaceholderName`).
-/
import SoyVerif.Base.Bytes
import SoyVerif.Gen.HtmlTagNames

namespace SoyVerif.Model.Msg

/-! ## id.go: hash32, fingerprint -/

def le32 (b0 b1 b2 b3 : UInt8) : UInt32 :=
  (b0.toUInt32 <<< 0) ||| (b1.toUInt32 <<< 8) ||| (b2.toUInt32 <<< 16) ||| (b3.toUInt32 <<< 24)

/-- the 27-line "Mix" block -/
def mix (a b c : UInt32) : UInt32 × UInt32 × UInt32 :=
  let a := a - b; let a := a - c; let a := a ^^^ (c >>> 13)
  let b := b - c; let b := b - a; let b := b ^^^ (a <<< 8)
  let c := c - a; let c := c - b; let c := c ^^^ (b >>> 13)
  let a := a - b; let a := a - c; let a := a ^^^ (c >>> 12)
  let b := b - c; let b := b - a; let b := b ^^^ (a <<< 16)
  let c := c - a; let c := c - b; let c := c ^^^ (b >>> 5)
  let a := a - b; let a := a - c; let a := a ^^^ (c >>> 3)
  let b := b - c; let b := b - a; let b := b ^^^ (a <<< 10)
  let c := c - a; let c := c - b; let c := c ^^^ (b >>> 15)
  (a, b, c)

/-- `for i = start; i+12 <= limit; i += 12 { … }`; returns the unread tail (< 12 bytes). -/
def hashBlocks : Bytes → UInt32 → UInt32 → UInt32 → Bytes × UInt32 × UInt32 × UInt32
  | b0 :: b1 :: b2 :: b3 :: b4 :: b5 :: b6 :: b7 :: b8 :: b9 :: b10 :: b11 :: rest, a, b, c =>
    let a := a + le32 b0 b1 b2 b3
    let b := b + le32 b4 b5 b6 b7
    let c := c + le32 b8 b9 b10 b11
    let (a, b, c) := mix a b c
    hashBlocks rest a b c
  | tail, a, b, c => (tail, a, b, c)

/-- `switch limit - i { case 11: … fallthrough … case 1: … }` on the tail `t`. -/
def hashTail (t : Bytes) (a b c : UInt32) : UInt32 × UInt32 × UInt32 :=
  let n := t.length
  let g (k : Nat) : UInt32 := (t.getD k 0).toUInt32
  let c := if n ≥ 11 then c + (g 10 <<< 24) else c
  let c := if n ≥ 10 then c + (g 9 <<< 16) else c
  let c := if n ≥ 9 then c + (g 8 <<< 8) else c
  let b := if n ≥ 8 then b + (g 7 <<< 24) else b
  let b := if n ≥ 7 then b + (g 6 <<< 16) else b
  let b := if n ≥ 6 then b + (g 5 <<< 8) else b
  let b := if n ≥ 5 then b + g 4 else b
  let a := if n ≥ 4 then a + (g 3 <<< 24) else a
  let a := if n ≥ 3 then a + (g 2 <<< 16) else a
  let a := if n ≥ 2 then a + (g 1 <<< 8) else a
  let a := if n ≥ 1 then a + g 0 else a
  (a, b, c)

/-- `hash32(str, 0, len(str), c)` -/
def hash32 (str : Bytes) (c : UInt32) : UInt32 :=
  let (tail, a, b, c) := hashBlocks str 0x9e3779b9 0x9e3779b9 c
  let c := c + UInt32.ofNat str.length
  let (a, b, c) := hashTail tail a b c
  (mix a b c).2.2

def fingerprint (str : Bytes) : UInt64 :=
  let hi := hash32 str 0
  let lo := hash32 str 102072
  let (hi, lo) := if hi == 0 && (lo == 0 || lo == 1) then (hi ^^^ 0x130f9bef, lo ^^^ 0x94a0a928) else (hi, lo)
  (hi.toUInt64 <<< 32) ||| (lo &&& 0xffffffff).toUInt64

/-- `calcID` after the fingerprint string has been written: meaning mixing and the mask. -/
def calcIDOf (fpstr meaning : Bytes) : UInt64 :=
  let fp := fingerprint fpstr
  let fp := if meaning ≠ [] then
      let topbit : UInt64 := if fp &&& ((1 : UInt64) <<< 63) > 0 then 1 else 0
      (fp <<< 1) + topbit + fingerprint meaning
    else fp
  fp &&& 0x7fffffffffffffff

/-! ## decimal numbers (`strconv.Itoa`) -/

def digitByte (c : Char) : UInt8 := UInt8.ofNat c.toNat

def itoa (n : Nat) : Bytes := (Nat.toDigits 10 n).map digitByte

def itoaInt : Int → Bytes
  | .ofNat n => itoa n
  | .negSucc n => 45 :: itoa (n + 1)

/-! ## toUpperUnderscore (placeholder.go) -/

def isUpper (b : UInt8) : Bool := 65 ≤ b && b ≤ 90
def isLower (b : UInt8) : Bool := 97 ≤ b && b ≤ 122
def isLetter (b : UInt8) : Bool := isUpper b || isLower b
def isDigit (b : UInt8) : Bool := 48 ≤ b && b ≤ 57
def isAlphaNumeric (b : UInt8) : Bool := isUpper b || isLower b || isDigit b

def toUpperByte (b : UInt8) : UInt8 := if isLower b then b - 32 else b
def toLowerByte (b : UInt8) : UInt8 := if isUpper b then b + 32 else b

/-- `_+$` searched from every position: the leftmost position from which only
    underscores follow starts the match, which runs to the end. -/
def stripTrailingUnderscores : Bytes → Bytes
  | [] => []
  | b :: r => if (b :: r).all (· == 95) then [] else b :: stripTrailingUnderscores r

/-- `leadingOrTrailing_ = ^_+|_+$`, replaced by "" -/
def stripUnderscores (s : Bytes) : Bytes :=
  stripTrailingUnderscores (s.dropWhile (· == 95))

/-- `consecutive_ = __+` replaced by "${1}_${2}" — neither group exists, both expand to
    the empty string, so every run of two or more underscores becomes a single one. -/
def collapseUnderscores : Bytes → Bytes
  | [] => []
  | b :: r =>
    if b == 95 then
      match r with
      | [] => [95]
      | c :: _ => if c == 95 then collapseUnderscores r   -- inside a run ≥ 2: drop this one
                  else 95 :: collapseUnderscores r
    else b :: collapseUnderscores r

/-- the loop of `toUpperUnderscore` (since /repo 19993f7): an underscore goes in before `ident[i]` at every word
    boundary found on the string as it stands — letter|Upper+lower, letter|digit, digit|letter (the look-around
    of the reference implementation); `prev` is `ident[i-1]` -/
def wordBoundaries : Option UInt8 → Bytes → Bytes
  | _, [] => []
  | prev, c :: r =>
    let boundary := match prev with
      | none => false
      | some p =>
        (isLetter p && isUpper c && (match r with | n :: _ => isLower n | [] => false)) ||
        (isLetter p && isDigit c) || (isDigit p && isLetter c)
    (if boundary then [95, c] else [c]) ++ wordBoundaries (some c) r

def toUpperUnderscore (ident : Bytes) : Bytes :=
  (wordBoundaries none (collapseUnderscores (stripUnderscores ident))).map toUpperByte

/-! ## html tags -/

def trimPrefix1 (p : UInt8) : Bytes → Bytes
  | b :: r => if b == p then r else b :: r
  | [] => []

/-- `for i, ch := range text { if !isAlphaNumeric(ch) { return lower(text[:i]) } }; panic` -/
def tagScan : Bytes → Option Bytes
  | [] => none
  | b :: r => if !isAlphaNumeric b then some [] else (tagScan r).map (toLowerByte b :: ·)

def tagTypeEnd : Bytes := [69, 78, 68, 95]            -- "END_"
def tagTypeStart : Bytes := [83, 84, 65, 82, 84, 95]  -- "START_"

/-- `tagName(text) (name, tagType)`; `none` = the panic "no tag name found". -/
def tagName (text : Bytes) : Option (Bytes × Bytes) :=
  let tagType : Bytes :=
    if [60, 47].isPrefixOf text then tagTypeEnd
    else if [47, 62].isSuffixOf text then []
    else tagTypeStart
  let text := trimPrefix1 47 (trimPrefix1 60 text)
  (tagScan text).map fun name => (name, tagType)

/-- `genBasePlaceholderNameFromHtml` -/
def htmlBaseName (text : Bytes) : Option Bytes :=
  (tagName text).map fun (tag, tagType) =>
    let tag := (Gen.htmlTagNames.lookup tag).getD tag
    toUpperUnderscore (tagType ++ tag)

/-! ## message bodies -/

/-- What ids and names depend on.  `base` = `genBasePlaceholderName(node.Body | plural.Value)`,
    `src` = `node.String()`. -/
inductive Part where
  | text (b : Bytes)
  | ph (base src : Bytes)
  | plural (base src : Bytes) (cases : List (Int × List Part)) (dflt : List Part)

structure Msg where
  meaning : Bytes
  desc : Bytes
  body : List Part

def Part.isText : Part → Bool
  | .text _ => true
  | _ => false

def Part.base : Part → Bytes
  | .text _ => []
  | .ph b _ => b
  | .plural b _ _ _ => b

def Part.src : Part → Bytes
  | .text _ => []
  | .ph _ s => s
  | .plural _ s _ _ => s

/-- `phNodes`: the placeholder and plural children -/
def phNodes (ps : List Part) : List Part := ps.filter (!·.isText)

/-- `pluralCaseBodies` (empty for a placeholder: only plurals enqueue children) -/
def pluralCaseBodies : Part → List Part
  | .plural _ _ cases dflt => cases.flatMap (fun c => phNodes c.2) ++ phNodes dflt
  | _ => []

mutual
def Part.size : Part → Nat
  | .text _ => 1
  | .ph _ _ => 1
  | .plural _ _ cs d => 1 + sizeCases cs + sizeList d
def sizeList : List Part → Nat
  | [] => 0
  | p :: ps => p.size + sizeList ps
def sizeCases : List (Int × List Part) → Nat
  | [] => 0
  | (_, b) :: cs => sizeList b + sizeCases cs
end

/-- The `nodeQueue` loop: nodes in the order in which they are dequeued.  Every dequeue
    consumes a distinct node of the tree, so `sizeList body` steps always suffice. -/
def bfs : Nat → List Part → List Part
  | 0, _ => []
  | _ + 1, [] => []
  | f + 1, n :: q => n :: bfs f (q ++ pluralCaseBodies n)

/-- A node as seen by the naming: `id` stands for the Go pointer. -/
structure QNode where
  id : Nat
  base : Bytes
  src : Bytes
deriving DecidableEq, Repr

def mkQueue (ps : List Part) : List QNode :=
  ps.zipIdx.map fun (p, i) => ⟨i, p.base, p.src⟩

def queue (body : List Part) : List QNode :=
  mkQueue (bfs (sizeList body + 1) (phNodes body))

/-! ## Go maps -/

/-- `m[k] = v` on an association list kept in insertion order -/
def mapSet {κ ν : Type} [BEq κ] (m : List (κ × ν)) (k : κ) (v : ν) : List (κ × ν) :=
  if m.any (·.1 == k) then m.map (fun e => if e.1 == k then (k, v) else e) else m ++ [(k, v)]

def mapHas {κ ν : Type} [BEq κ] (m : List (κ × ν)) (k : κ) : Bool := m.any (·.1 == k)

/-- One iteration order per `range` over a map in `setPlaceholderNames`. -/
structure Orders where
  reps : List (Bytes × List QNode) → List (Bytes × List QNode)   -- step 2: baseNameToRepNodes
  names : List (Bytes × Nat) → List (Bytes × Nat)                 -- step 3: nameToRepNodes
  equiv : List (Nat × Nat) → List (Nat × Nat)                     -- step 3: equivNodeToRepNodes
  nodes : List (Nat × Bytes) → List (Nat × Bytes)                 -- step 4: nodeToName

/-- An iteration order visits every entry exactly once. -/
structure Orders.Valid (o : Orders) : Prop where
  reps : ∀ l, (o.reps l).Perm l
  names : ∀ l, (o.names l).Perm l
  equiv : ∀ l, (o.equiv l).Perm l
  nodes : ∀ l, (o.nodes l).Perm l

def Orders.id : Orders := ⟨fun l => l, fun l => l, fun l => l, fun l => l⟩

/-! ## setPlaceholderNames -/

structure Step1 where
  reps : List (Bytes × List QNode) := []   -- baseNameToRepNodes
  equiv : List (Nat × Nat) := []           -- equivNodeToRepNodes: node ↦ representative

/-- body of the `nodeQueue` loop after the base name has been computed -/
def step1Node (s : Step1) (node : QNode) : Step1 :=
  match s.reps.lookup node.base with
  | none => { s with reps := mapSet s.reps node.base [node] }
  | some nodes =>
    match nodes.find? (fun other => other.src == node.src) with
    | some other => { s with equiv := mapSet s.equiv node.id other.id }
    | none => { s with reps := mapSet s.reps node.base (nodes ++ [node]) }

def step1 (q : List QNode) : Step1 := q.foldl step1Node {}

def suffixed (base : Bytes) (n : Nat) : Bytes := base ++ 95 :: itoa n

/-- the inner `for { newName = base_N; N++; if !taken { break } }`; returns the suffix
    used.  The loop ends within `len(baseNameToRepNodes)+1` rounds (pigeonhole, proved in
    `Lemmas/MsgNames`: `findSuffix_free`), which is the fuel given by the caller. -/
def findSuffix (keys : List Bytes) (base : Bytes) : Nat → Nat → Nat
  | 0, next => next
  | fuel + 1, next =>
    if keys.contains (suffixed base next) then findSuffix keys base fuel (next + 1) else next

/-- `for _, node := range nodes { … }` of step 2 for one base name with several nodes -/
def assignSuffixes (keys : List Bytes) (base : Bytes) :
    List QNode → Nat → List (Bytes × Nat) → List (Bytes × Nat)
  | [], _, m => m
  | node :: ns, next, m =>
    let k := findSuffix keys base (keys.length + 1) next
    assignSuffixes keys base ns (k + 1) (mapSet m (suffixed base k) node.id)

def step2Entry (keys : List Bytes) (m : List (Bytes × Nat)) (e : Bytes × List QNode) : List (Bytes × Nat) :=
  match e.2 with
  | [node] => mapSet m e.1 node.id
  | nodes => assignSuffixes keys e.1 nodes 1 m

/-- Step 2: `nameToRepNodes` -/
def step2 (o : Orders) (reps : List (Bytes × List QNode)) : List (Bytes × Nat) :=
  (o.reps reps).foldl (step2Entry (reps.map (·.1))) []

/-- Step 3: `nodeToName` (a missing key reads as "", Go's zero value) -/
def step3 (o : Orders) (nameToRep : List (Bytes × Nat)) (equiv : List (Nat × Nat)) : List (Nat × Bytes) :=
  let m := (o.names nameToRep).foldl (fun m e => mapSet m e.2 e.1) []
  (o.equiv equiv).foldl (fun m e => mapSet m e.1 ((m.lookup e.2).getD [])) m

/-- Step 4: `node.Name = name` / `node.VarName = name`; all names start as "" -/
def step4 (o : Orders) (n : Nat) (nodeToName : List (Nat × Bytes)) : List Bytes :=
  (o.nodes nodeToName).foldl (fun names e => names.set e.1 e.2) (List.replicate n [])

/-- names of the queue nodes, in queue order -/
def setNamesQ (o : Orders) (q : List QNode) : List Bytes :=
  let s := step1 q
  step4 o q.length (step3 o (step2 o s.reps) s.equiv)

def setNames (o : Orders) (body : List Part) : List Bytes := setNamesQ o (queue body)

/-- The `Name` field a tree node ends up with.  Go finds it through the pointer; the model
    finds it through (base, src): nodes equal in both are equivalent and get the same
    name (theorem `names_equiv_same`), so the first one in the queue stands for all. -/
def nameFor (q : List QNode) (names : List Bytes) (base src : Bytes) : Bytes :=
  match q.findIdx? (fun n => n.base == base && n.src == src) with
  | some i => names.getD i []
  | none => []

/-! ## writeFingerprint -/

/-- A message body with names assigned: exactly what the fingerprint string depends on. -/
inductive NPart where
  | text (b : Bytes)
  | ph (name : Bytes)
  | plural (varName : Bytes) (cases : List (Int × List NPart)) (dflt : List NPart)

mutual
def skel (nm : Bytes → Bytes → Bytes) : Part → NPart
  | .text b => .text b
  | .ph base src => .ph (nm base src)
  | .plural base src cs d => .plural (nm base src) (skelCases nm cs) (skelList nm d)
def skelList (nm : Bytes → Bytes → Bytes) : List Part → List NPart
  | [] => []
  | p :: ps => skel nm p :: skelList nm ps
def skelCases (nm : Bytes → Bytes → Bytes) : List (Int × List Part) → List (Int × List NPart)
  | [] => []
  | (v, b) :: cs => (v, skelList nm b) :: skelCases nm cs
end

def sPlural : Bytes := [44, 112, 108, 117, 114, 97, 108, 44]  -- ",plural,"
def sOther : Bytes := [111, 116, 104, 101, 114, 123]          -- "other{"

mutual
def writeFP (braces : Bool) : NPart → Bytes
  | .text b => b
  | .ph name => if braces then 123 :: name ++ [125] else name
  | .plural v cs d => 123 :: v ++ sPlural ++ writeFPCases cs ++ sOther ++ writeFPList true d ++ [125, 125]
def writeFPList (braces : Bool) : List NPart → Bytes
  | [] => []
  | p :: ps => writeFP braces p ++ writeFPList braces ps
def writeFPCases : List (Int × List NPart) → Bytes
  | [] => []
  | (v, b) :: cs => 61 :: itoaInt v ++ 123 :: writeFPList true b ++ 125 :: writeFPCases cs
end

/-- the body after `setPlaceholderNames` -/
def namedBody (o : Orders) (body : List Part) : List NPart :=
  skelList (nameFor (queue body) (setNames o body)) body

def writeFingerprint (o : Orders) (m : Msg) (braces : Bool) : Bytes :=
  writeFPList braces (namedBody o m.body)

/-- `SetPlaceholdersAndID`: the id -/
def calcID (o : Orders) (m : Msg) : UInt64 :=
  calcIDOf (writeFingerprint o m false) m.meaning

def placeholderString (o : Orders) (m : Msg) : Bytes := writeFingerprint o m true

-- names of the placeholders / plurals in document order (observation of the tie)
mutual
def namesOf : NPart → List Bytes
  | .text _ => []
  | .ph n => [n]
  | .plural v cs d => v :: namesOfCases cs ++ namesOfList d
def namesOfList : List NPart → List Bytes
  | [] => []
  | p :: ps => namesOf p ++ namesOfList ps
def namesOfCases : List (Int × List NPart) → List Bytes
  | [] => []
  | (_, b) :: cs => namesOfList b ++ namesOfCases cs
end

/-! ## soymsg.Parts -/

inductive MsgPart where
  | text (b : Bytes)
  | ph (name : Bytes)
deriving DecidableEq, Repr

def isPhChar (b : UInt8) : Bool := isUpper b || isDigit b || b == 95

/-- after a `{`: the run of `[A-Z0-9_]` up to the closing `}` (possibly empty), if the input
    continues that way -/
def phRun : Bytes → Option Bytes
  | [] => none
  | b :: r => if b == 125 then some [] else if isPhChar b then (phRun r).map (b :: ·) else none

/-- `{[A-Z0-9_]+}` anchored at the head of the input: the name matched -/
def matchPh : Bytes → Option Bytes
  | 123 :: r =>
    match phRun r with
    | some (n :: ns) => some (n :: ns)
    | _ => none
  | _ => none

def flushText (pend : Bytes) : List MsgPart := if pend.isEmpty then [] else [.text pend]

/-- `FindAllStringIndex` + the loop of `Parts`: `skip` bytes of the current match are
    still to be passed over, `pend` is `str[pos:here]`. -/
def partsGo : Nat → Bytes → Bytes → List MsgPart
  | _, pend, [] => flushText pend
  | skip + 1, pend, _ :: r => partsGo skip pend r
  | 0, pend, b :: r =>
    match matchPh (b :: r) with
    | some name => flushText pend ++ .ph name :: partsGo (name.length + 1) [] r
    | none => partsGo 0 (pend ++ [b]) r

def parts (str : Bytes) : List MsgPart := partsGo 0 [] str

end SoyVerif.Model.Msg
