/-
  The output side of a render (soyhtml/exec.go): every piece of output is handed to the
  caller's io.Writer by a *checked* write — `if _, err := s.wr.Write(x); err != nil
  { s.errorf(...) }` — and the first failing write aborts the render with an error.

  `Writer` models an arbitrary io.Writer as a state machine; `Contract` is the io.Writer
  contract the property assumes (a write that reports no error accepted everything; no
  write accepts more than it was given, and what it accepts is a prefix of what it was
  given).  `render chunks` is the sequence of checked writes for the chunk list of a
  fault-free run.
-/
import SoyVerif.Base.Bytes

namespace SoyVerif.Model.Writer
open SoyVerif

/-- an io.Writer: state, and `write` returning the new state, the number of bytes accepted, and ok/error -/
structure Writer (σ : Type) where
  write : σ → Bytes → σ × Nat × Bool      -- (state', n, ok)

/-- the io.Writer contract: n ≤ len(p), and ok ⇒ n = len(p) -/
def Contract {σ : Type} (w : Writer σ) : Prop :=
  ∀ s p, (w.write s p).2.1 ≤ p.length ∧ ((w.write s p).2.2 = true → (w.write s p).2.1 = p.length)

/-- outcome of a render: the writer state, the bytes the writer accepted so far, success -/
structure Outcome (σ : Type) where
  st : σ
  accepted : Bytes
  ok : Bool

/-- the checked writes of soyhtml, in order; stops at the first failing write -/
def render {σ : Type} (w : Writer σ) : List Bytes → σ → Bytes → Outcome σ
  | [], s, acc => { st := s, accepted := acc, ok := true }
  | c :: rest, s, acc =>
    let r := w.write s c
    if r.2.2 then render w rest r.1 (acc ++ c.take r.2.1)
    else { st := r.1, accepted := acc ++ c.take r.2.1, ok := false }

/-- a concrete family of faulty writers used by the correspondence: accepts `cap` bytes
    in total, then fails (a short write with an error at the byte where the capacity ends);
    `failAt` additionally makes the k-th write call (0-based) fail outright. -/
structure FaultState where
  room : Nat            -- bytes still accepted
  calls : Nat           -- write calls so far
  failAt : Option Nat

def faultWriter : Writer FaultState where
  write s p :=
    if s.failAt == some s.calls then ({ s with calls := s.calls + 1 }, 0, false)
    else if p.length ≤ s.room then ({ s with room := s.room - p.length, calls := s.calls + 1 }, p.length, true)
    else ({ s with room := 0, calls := s.calls + 1 }, s.room, false)

end SoyVerif.Model.Writer
