/-
  Executable model of the Soy lexer, /repo/parse/lexer.go, state function by state
  function.

  Observable: `lexAll input exprMode` = the list of items sent on the channel until it is
  closed (the list ends with an EOF item or an Error item whose `val` is empty — error
  *texts* are not modelled), or `panic` (a Go runtime panic: slice/index out of range),
  or `fuelOut` (the `run` loop used up its budget of state transitions).

  Conventions
  * `pos`, `start`, `width` are Go `int`s: `Int` here.  Every slice expression
    `l.input[a:b]`, `l.input[a:]` and index expression `l.input[i]` carries Go's bounds
    check explicitly; a failed check is `none` (= PANIC).  This includes the slice inside
    `next` (`l.input[l.pos:]`), so a negative `pos` is not silently tolerated.
  * A rune is an `Int`; `eof = -1`.  `decodeRune` is `utf8.DecodeRuneInString`
    (RuneError U+FFFD with width 1 on every invalid or truncated sequence, surrogates and
    overlong forms included).
  * `unicode.IsLetter/IsDigit/IsSpace` are lookups in the range tables generated from the Go
    toolchain in use (`Gen/Unicode.lean`); `builtinIdents`, `arithmeticItemsBySymbol` and the
    set of tokens after which `-` is unary come from `Gen/LexTables.lean`
    (`parse.VerifTables()` of the running code).
  * Scanning loops are recursive functions whose termination Lean checks with the measure
    `|input| − pos` (`Lexer.rem`); plain `for p(l.next()) {}` loops share `scanWhile`.
    Only the top-level `run` loop takes fuel (`fuelFor |input| = 7·|input| + 8` state
    transitions), and running out of it is the distinguished outcome `fuelOut` — which
    `Props/C05.lean` proves never happens (`lex_total`), as it proves that `panic` never
    happens on the current code (`lex_no_panic`).
  * The unbuffered channel is not modelled: `emit`/`errorf` append to `items`.
-/
import SoyVerif.Model.Token
import SoyVerif.Gen.Unicode
import SoyVerif.Gen.LexTables

namespace SoyVerif.Model.Lex
open SoyVerif SoyVerif.Model

/-! ## Runes -/

/-- runes are plain `Int`s (written `Int` below so that `omega` sees through) -/
abbrev Rune := Int
def eof : Int := -1
def runeError : Nat := 0xFFFD

def byteAt (a : Array UInt8) (i : Nat) : Nat := (a.getD i 0).toNat

/-- lowest / highest second byte accepted after the lead byte `s0` (`acceptRanges`) -/
def acceptLo (s0 : Nat) : Nat := if s0 = 0xE0 then 0xA0 else if s0 = 0xF0 then 0x90 else 0x80
def acceptHi (s0 : Nat) : Nat := if s0 = 0xED then 0x9F else if s0 = 0xF4 then 0x8F else 0xBF

/-- `utf8.DecodeRuneInString(s[i:])` for `i < |s|`: (rune, width).
    (`first[s0]` of package utf8 spelt out: 00–7F ASCII; 80–C1, F5–FF invalid; C2–DF two
    bytes; E0–EF three bytes with second byte in A0–BF after E0, 80–9F after ED; F0–F4 four
    bytes with second byte in 90–BF after F0, 80–8F after F4.) -/
def decodeRune (a : Array UInt8) (i : Nat) : Nat × Nat :=
  let n := a.size - i
  let s0 := byteAt a i
  if s0 < 0x80 then (s0, 1)
  else if s0 < 0xC2 then (runeError, 1)
  else if s0 < 0xE0 then
    if n < 2 then (runeError, 1)
    else
      let s1 := byteAt a (i + 1)
      if s1 < 0x80 ∨ 0xBF < s1 then (runeError, 1)
      else ((s0 % 32) * 64 + s1 % 64, 2)
  else if s0 < 0xF0 then
    if n < 3 then (runeError, 1)
    else
      let s1 := byteAt a (i + 1)
      let s2 := byteAt a (i + 2)
      if s1 < acceptLo s0 ∨ acceptHi s0 < s1 then (runeError, 1)
      else if s2 < 0x80 ∨ 0xBF < s2 then (runeError, 1)
      else ((s0 % 16) * 4096 + (s1 % 64) * 64 + s2 % 64, 3)
  else if s0 < 0xF5 then
    if n < 4 then (runeError, 1)
    else
      let s1 := byteAt a (i + 1)
      let s2 := byteAt a (i + 2)
      let s3 := byteAt a (i + 3)
      if s1 < acceptLo s0 ∨ acceptHi s0 < s1 then (runeError, 1)
      else if s2 < 0x80 ∨ 0xBF < s2 then (runeError, 1)
      else if s3 < 0x80 ∨ 0xBF < s3 then (runeError, 1)
      else ((s0 % 8) * 262144 + (s1 % 64) * 4096 + (s2 % 64) * 64 + s3 % 64, 4)
  else (runeError, 1)

theorem decodeRune_width (a : Array UInt8) (i : Nat) (h : i < a.size) :
    1 ≤ (decodeRune a i).2 ∧ i + (decodeRune a i).2 ≤ a.size := by
  unfold decodeRune
  simp only
  split
  · (try simp only []); omega
  split
  · (try simp only []); omega
  split
  · split
    · (try simp only []); omega
    split <;> ((try simp only []); omega)
  split
  · split
    · (try simp only []); omega
    split
    · (try simp only []); omega
    split <;> ((try simp only []); omega)
  split
  · split
    · (try simp only []); omega
    split
    · (try simp only []); omega
    split
    · (try simp only []); omega
    split <;> ((try simp only []); omega)
  · (try simp only []); omega

def inRanges (t : Array (Nat × Nat × Nat)) (r : Nat) : Bool :=
  t.any fun e => e.1 ≤ r && r ≤ e.2.1 && (r - e.1) % e.2.2 == 0

def isLetterU (r : Int) : Bool := decide (0 ≤ r) && inRanges Gen.letterRanges r.toNat
def isDigitU (r : Int) : Bool := decide (0 ≤ r) && inRanges Gen.digitRanges r.toNat
def isSpaceU (r : Int) : Bool := decide (0 ≤ r) && inRanges Gen.spaceRanges r.toNat

/-! ## Helpers of lexer.go -/

def isAlphaNumeric (r : Int) : Bool := r == 95 || isLetterU r || isDigitU r
def isSpace (r : Int) : Bool := r == 32 || r == 9
def isEndOfLine (r : Int) : Bool := r == 13 || r == 10
def isSpaceEOL (r : Int) : Bool := isSpace r || isEndOfLine r
def isLetterOrUnderscore (r : Int) : Bool := (97 ≤ r && r ≤ 122) || (65 ≤ r && r ≤ 90) || r == 95
def isDigit (r : Int) : Bool := 48 ≤ r && r ≤ 57

theorem isAlphaNumeric_eof : isAlphaNumeric eof = false := by
  simp [isAlphaNumeric, isLetterU, isDigitU, eof]

/-- `strings.IndexRune(valid, r) >= 0` for an ASCII-only `valid`: an invalid rune
    (negative: eof) is never found. -/
def indexRune (valid : List Int) (r : Int) : Bool := decide (0 ≤ r) && valid.contains r

theorem indexRune_eof (valid : List Int) : indexRune valid eof = false := by
  simp [indexRune, eof]

/-- `for _, ch := range str` of allSpaceWithNewline over the bytes `a`, from index `i`. -/
def allSpaceLoop (a : Array UInt8) (i : Nat) (seenNewline : Bool) : Bool :=
  if h : i < a.size then
    let d := decodeRune a i
    if !isSpaceEOL d.1 then false   -- space, tab, CR, LF: what line joining treats as whitespace (/repo dbf6196)
    else allSpaceLoop a (i + d.2) (seenNewline || isEndOfLine d.1)
  else seenNewline
termination_by a.size - i
decreasing_by
  have := decodeRune_width a i h
  omega

def allSpaceWithNewline (s : Bytes) : Bool := allSpaceLoop s.toArray 0 false

/-! ## Go slice and index expressions with their bounds checks -/

/-- `s[a:b]`; `none` = slice bounds out of range -/
def sliceOf (s : Array UInt8) (a b : Int) : Option Bytes :=
  if 0 ≤ a ∧ a ≤ b ∧ b ≤ s.size then some (s.extract a.toNat b.toNat).toList else none

/-- `s[a:]` -/
def sliceFrom (s : Array UInt8) (a : Int) : Option Bytes := sliceOf s a s.size

/-- `s[i]`; `none` = index out of range -/
def indexOf (s : Array UInt8) (i : Int) : Option UInt8 :=
  if 0 ≤ i ∧ i < s.size then some (s.getD i.toNat 0) else none

/-- `strings.HasPrefix(s[pos:], pre)` -/
def hasPrefixAt (s : Array UInt8) (pos : Int) (pre : Bytes) : Option Bool :=
  if 0 ≤ pos ∧ pos ≤ s.size then
    some ((s.extract pos.toNat (pos.toNat + pre.length)).toList == pre)
  else none

/-- `strings.Index(hay, needle)` for a non-empty needle -/
def stringsIndex (needle : Bytes) : (hay : Bytes) → Option Nat
  | [] => none
  | b :: t => if needle.isPrefixOf (b :: t) then some 0 else (stringsIndex needle t).map (· + 1)

/-! ## The lexer record and its primitives -/

structure Lexer where
  input : Array UInt8
  pos : Int := 0
  start : Int := 0
  width : Int := 0
  doubleDelim : Bool := false
  /-- start position of the tag being scanned, for errors -/
  tagStart : Int := 0
  lastEmit : Item := Item.zero
  /-- everything sent on the channel so far -/
  items : Array Item := #[]

namespace Lexer

def len (l : Lexer) : Int := l.input.size

/-- the termination measure of the scanning loops -/
def rem (l : Lexer) : Nat := (l.len - l.pos).toNat

/-- the largest position of an item sent so far (0 if none); used by the position bound of
    Props/C19.lean -/
def mp (l : Lexer) : Nat := l.items.toList.foldl (fun m it => max m it.pos) 0

/-- `l.next()` -/
def next (l : Lexer) : Option (Int × Lexer) :=
  if l.pos ≥ l.len then some (eof, { l with width := 0 })
  else if l.pos < 0 then none
  else
    let d := decodeRune l.input l.pos.toNat
    some ((d.1 : Int), { l with width := d.2, pos := l.pos + d.2 })

/-- `l.backup()` -/
def backup (l : Lexer) : Lexer := { l with pos := l.pos - l.width }

/-- `l.peek()` -/
def peek (l : Lexer) : Option (Int × Lexer) := do
  let (r, l) ← l.next
  pure (r, l.backup)

/-- `l.ignore()` -/
def ignore (l : Lexer) : Lexer := { l with start := l.pos }

/-- `l.pos += d` -/
def addPos (l : Lexer) (d : Int) : Lexer := { l with pos := l.pos + d }

/-- `l.emit(t)` -/
def emit (l : Lexer) (t : ItemType) : Option Lexer :=
  let l := if l.pos > l.len then { l with pos := l.len } else l
  match sliceOf l.input l.start l.pos with
  | none => none
  | some v =>
    let it : Item := { typ := t, pos := l.pos.toNat, val := v }
    some { l with lastEmit := it, items := l.items.push it, start := l.pos }

end Lexer

/-- the states of the machine (`stateFn` values) -/
inductive St where
  | text | leftDelim | rightDelim | rightDelimEnd | beginTag | insideTag
  | ident | number | headerParam | css | literal
  | str (quote : Int)
  deriving DecidableEq, Repr

/-- result of a state function: `none` = PANIC, `some (none, l)` = returned `nil`,
    `some (some s, l)` = next state `s` -/
abbrev Res := Option (Option St × Lexer)

/-- `l.errorf(...)`: sends an Error item (text not modelled) and returns nil.
    (`pos` is never negative here — a negative `pos` panics at the latest in `next`.) -/
def errorf (l : Lexer) : Res :=
  some (none, { l with items := l.items.push { typ := .tError, pos := l.pos.toNat, val := [] } })

/-- classes of the errors `errorfAt` reports (the model keeps the class of an error in the
    item's `val`, one byte, instead of the message text; `errorf` items have the empty class):
    1 "unclosed tag" and the two malformed tags reported at their `{` ("expected {@param name: ...}",
      "expected closing tag after {literal.."), 2 "unexpected eof while scanning string", 3 "unclosed block comment",
    4 "unexpected eof when scanning soydoc", 5 "unclosed literal",
    6 "expected double closing braces in tag",
    7 "unexpected beginning to name after '.'" / "… after '?.'" -/
def clsTag : UInt8 := 1
def clsString : UInt8 := 2
def clsComment : UInt8 := 3
def clsSoyDoc : UInt8 := 4
def clsLiteral : UInt8 := 5
/-- 6 "expected double closing braces in tag": reported at the start of the pending token, the
    single closing brace (/repo 79f0bfc; it was `errorf`, at `pos` behind the look-ahead character) -/
def clsBraces : UInt8 := 6
/-- 7 "unexpected beginning to name after '.' / '?.'": reported at the start of the pending token, the
    `.` or the `?` (/repo 8984077; before, `$a.` and `.٣` were accepted as names) -/
def clsName : UInt8 := 7

/-- `l.errorfAt(pos, ...)`: an Error item positioned where an unclosed construct begins
    (`l.start`, `docStart` or `l.tagStart`, none of which is ever negative). -/
def errorfAt (l : Lexer) (pos : Int) (cls : UInt8) : Res :=
  some (none, { l with items := l.items.push { typ := .tError, pos := pos.toNat, val := [cls] } })

/-! ### Facts about `next` needed for the termination of the scanning loops -/

theorem next_spec {l l' : Lexer} {r : Int} (h : l.next = some (r, l')) :
    l'.input = l.input ∧
    ((l.len ≤ l.pos ∧ r = eof ∧ l'.pos = l.pos ∧ l'.width = 0) ∨
     (0 ≤ l.pos ∧ l.pos < l.len ∧ 0 ≤ r ∧ 1 ≤ l'.width ∧ l'.pos = l.pos + l'.width ∧ l'.pos ≤ l.len)) := by
  unfold Lexer.next at h
  split at h
  · simp only [Option.some.injEq, Prod.mk.injEq] at h
    obtain ⟨rfl, rfl⟩ := h
    exact ⟨rfl, Or.inl ⟨by assumption, rfl, rfl, rfl⟩⟩
  · split at h
    · exact absurd h (by simp)
    · simp only [Option.some.injEq, Prod.mk.injEq] at h
      obtain ⟨rfl, rfl⟩ := h
      rename_i h1 h2
      simp only [Lexer.len] at h1 h2
      have hlt : l.pos.toNat < l.input.size := by omega
      have hw := decodeRune_width l.input l.pos.toNat hlt
      refine ⟨rfl, Or.inr ⟨by omega, ?_, Int.natCast_nonneg _, ?_, rfl, ?_⟩⟩ <;> (simp only [Lexer.len]; omega)

theorem next_input {l l' : Lexer} {r : Int} (h : l.next = some (r, l')) : l'.input = l.input :=
  (next_spec h).1

theorem next_len {l l' : Lexer} {r : Int} (h : l.next = some (r, l')) : l'.len = l.len := by
  simp [Lexer.len, next_input h]

/-- a `next` that did not return eof moved forward -/
theorem next_rem_lt {l l' : Lexer} {r : Int} (h : l.next = some (r, l')) (hr : r ≠ eof) :
    l'.rem < l.rem := by
  have hl := next_len h
  rcases (next_spec h).2 with ⟨_, he, _⟩ | ⟨h0, h1, _, hw, hp, _⟩
  · exact absurd he hr
  · simp only [Lexer.rem, hl]; omega

theorem next_rem_le {l l' : Lexer} {r : Int} (h : l.next = some (r, l')) : l'.rem ≤ l.rem := by
  have hl := next_len h
  rcases (next_spec h).2 with ⟨_, _, hp, _⟩ | ⟨h0, h1, _, hw, hp, _⟩
  · simp only [Lexer.rem, hl]; omega
  · simp only [Lexer.rem, hl]; omega

/-- `next` followed by `backup` restores the position -/
theorem next_backup_pos {l l' : Lexer} {r : Int} (h : l.next = some (r, l')) :
    l'.backup.pos = l.pos ∧ l'.backup.input = l.input := by
  have hi := next_input h
  refine ⟨?_, hi⟩
  simp only [Lexer.backup]
  rcases (next_spec h).2 with ⟨_, _, hp, hw⟩ | ⟨_, _, _, _, hp, _⟩ <;> omega

theorem next_backup_rem {l l' : Lexer} {r : Int} (h : l.next = some (r, l')) :
    l'.backup.rem = l.rem := by
  have := next_backup_pos h
  simp [Lexer.rem, Lexer.len, this.1, this.2]

/-! ### Plain scanning loops -/

/-- `for p(l.next()) {}` — consumes runes while `p` holds; returns the first rune on which
    `p` fails together with the lexer after that `next` (not backed up).  `p eof = false`
    is what makes every such loop of lexer.go stop. -/
def scanWhile (p : Int → Bool) (hp : p eof = false) (l : Lexer) : Option (Int × Lexer) :=
  match h : l.next with
  | none => none
  | some (r, l') => if hr : p r = true then scanWhile p hp l' else some (r, l')
termination_by l.rem
decreasing_by
  exact next_rem_lt h (by intro e; rw [e, hp] at hr; exact absurd hr (by simp))

/-- `l.accept(valid)` -/
def accept (l : Lexer) (valid : List Int) : Option (Bool × Lexer) := do
  let (r, l) ← l.next
  if indexRune valid r then pure (true, l) else pure (false, l.backup)

/-- `l.acceptRun(valid)` -/
def acceptRun (l : Lexer) (valid : List Int) : Option (Bool × Lexer) := do
  let pos := l.pos
  let (_, l) ← scanWhile (indexRune valid) (indexRune_eof valid) l
  let l := l.backup
  pure (decide (l.pos > pos), l)

/-- `skipSpace(l)` -/
def skipSpace (l : Lexer) : Option Lexer := do
  let (_, l) ← scanWhile isSpaceEOL (by decide) l
  pure l.backup.ignore

/-- `maybeEmitText(l, backup)` -/
def maybeEmitText (l : Lexer) (backup : Int) : Option Lexer :=
  if l.pos - backup > l.start then
    match sliceOf l.input l.start (l.pos - backup) with
    | none => none
    | some s =>
      match (if allSpaceWithNewline s then some (l.addPos (-backup)).ignore
             else (l.addPos (-backup)).emit .tText) with
      | none => none
      | some l2 => some (l2.addPos backup)
  else some l

/-- the condition `l.doubleDelim && l.next() != '}'` (short-circuit: `next` only runs in a
    double-brace tag) -/
def badDoubleClose (l : Lexer) : Option (Bool × Lexer) :=
  if l.doubleDelim then do
    let (r, l) ← l.next
    pure (decide (r ≠ 125), l)
  else pure (false, l)

/-! ### Facts about the primitives (input never changes; how `pos` moves) -/

theorem emit_spec {l l' : Lexer} {t : ItemType} (h : l.emit t = some l') :
    l'.input = l.input ∧ (l.pos ≤ l.len → l'.pos = l.pos) ∧ l'.pos ≤ l.pos ∧ l'.pos ≤ l.len := by
  unfold Lexer.emit at h
  simp only at h
  split at h
  · exact absurd h (by simp)
  · simp only [Option.some.injEq] at h
    subst h
    refine ⟨?_, ?_, ?_, ?_⟩
    · split <;> rfl
    · intro hle; simp only; split
      · omega
      · rfl
    · simp only; split
      · simp only; omega
      · exact Int.le_refl _
    · simp only; split
      · simp only [Lexer.len]; omega
      · simp only [Lexer.len] at *; omega

theorem scanWhile_spec (p : Int → Bool) (hp : p eof = false) (l : Lexer) {r : Int} {l' : Lexer}
    (h : scanWhile p hp l = some (r, l')) :
    l'.input = l.input ∧ l.pos ≤ l'.pos ∧ (l.pos ≤ l.len → l'.pos ≤ l.len) ∧ p r = false
      ∧ l'.pos - l'.width ≥ l.pos ∧ 0 ≤ l'.width := by
  induction l using scanWhile.induct p hp with
  | case1 l hn =>
    unfold scanWhile at h
    split at h
    · exact absurd h (by simp)
    · rename_i heq; rw [hn] at heq; exact absurd heq (by simp)
  | case2 l r0 l0 hn hr ih =>
    unfold scanWhile at h
    split at h
    · exact absurd h (by simp)
    · rename_i r1 l1 heq
      rw [hn] at heq
      simp only [Option.some.injEq, Prod.mk.injEq] at heq
      obtain ⟨rfl, rfl⟩ := heq
      simp only [hr, dite_true] at h
      have := ih h
      have hi := next_input hn
      have hl := next_len hn
      rcases (next_spec hn).2 with ⟨_, _, hp0, _⟩ | ⟨_, _, _, hw, hp0, hle⟩
      · refine ⟨this.1.trans hi, by omega, ?_, this.2.2.2.1, by omega, this.2.2.2.2.2⟩
        intro hh; have := this.2.2.1 (by omega); omega
      · refine ⟨this.1.trans hi, by omega, ?_, this.2.2.2.1, by omega, this.2.2.2.2.2⟩
        intro _; have := this.2.2.1 (by omega); omega
  | case3 l r0 l0 hn hr =>
    unfold scanWhile at h
    split at h
    · exact absurd h (by simp)
    · rename_i r1 l1 heq
      rw [hn] at heq
      simp only [Option.some.injEq, Prod.mk.injEq] at heq
      obtain ⟨rfl, rfl⟩ := heq
      simp only [hr, dite_false, Option.some.injEq, Prod.mk.injEq] at h
      obtain ⟨rfl, rfl⟩ := h
      have hi := next_input hn
      have hl := next_len hn
      refine ⟨hi, ?_, ?_, by simpa using hr, ?_, ?_⟩ <;>
        rcases (next_spec hn).2 with ⟨_, _, hp0, hw⟩ | ⟨_, _, _, hw, hp0, hle⟩ <;> omega


theorem maybeEmitText_spec {l l' : Lexer} {k : Int} (h : maybeEmitText l k = some l') :
    l'.input = l.input ∧ (l.pos - k ≤ l.len → l'.pos = l.pos) ∧ l'.pos ≤ l.pos := by
  unfold maybeEmitText at h
  split at h
  · split at h
    · exact absurd h (by simp)
    · split at h
      · exact absurd h (by simp)
      · rename_i l2 heq
        simp only [Option.some.injEq] at h
        subst h
        split at heq
        · simp only [Option.some.injEq] at heq
          subst heq
          refine ⟨rfl, ?_, ?_⟩ <;> (simp only [Lexer.ignore, Lexer.addPos]; intros; omega)
        · have := emit_spec heq
          simp only [Lexer.len, Lexer.addPos] at this ⊢
          refine ⟨this.1, ?_, ?_⟩
          · intro hle; have := this.2.1 hle; omega
          · have := this.2.2.1; omega
  · simp only [Option.some.injEq] at h
    subst h
    exact ⟨rfl, fun _ => rfl, Int.le_refl _⟩

/-! ## State functions -/

/-- `lexLineComment`: "//" has just been read -/
def lexLineComment (l : Lexer) : Res := do
  let (_, l) ← scanWhile (fun r => !(isEndOfLine r || r == eof)) (by decide) l
  let l ← l.emit .tComment
  pure (some .text, l)

/-- `lexBlockComment`: "/*" has just been read; `star` is the loop variable -/
def lexBlockComment (l : Lexer) (star : Bool) : Res :=
  match h : l.next with
  | none => none
  | some (r, l1) =>
    if r = eof then errorfAt l1 l1.start clsComment
    else if r = 42 then lexBlockComment l1 true
    else if r = 47 ∧ star = true then
      match l1.emit .tComment with
      | none => none
      | some l2 => some (some .text, l2)
    else lexBlockComment l1 false
termination_by l.rem
decreasing_by
  · exact next_rem_lt h (by assumption)
  · exact next_rem_lt h (by assumption)

/-- loop condition of "skip all spaces" in lexSoyDocParam: `!(r == eof || !isSpace(r))` -/
def sdpSkip (r : Int) : Bool := !(r == eof || !isSpace r)
/-- loop condition of "extract the param" in lexSoyDocParam: `!(isSpaceEOL(r) || r == eof)` -/
def sdpName (r : Int) : Bool := !(isSpaceEOL r || r == eof)

/-- the second half of `lexSoyDocParam`: skip spaces, extract the param name -/
def lexSoyDocParamName (l : Lexer) : Option Lexer :=
  -- skip all spaces: `for { r := l.next(); if r == eof || !isSpace(r) { break } }`
  match scanWhile sdpSkip (by decide) l with
  | none => none
  | some (_, l1) =>
    -- l.backup(); l.ignore()
    -- extract the param: `for { r := l.next(); if isSpaceEOL(r) || r == eof { … break } }`
    match scanWhile sdpName (by decide) l1.backup.ignore with
    | none => none
    | some (r, l2) =>
      -- back up over the delimiter (eof has no width): `if r != eof { l.pos-- }`; l.emit(itemIdent)
      match Lexer.emit (if r ≠ eof then l2.addPos (-1) else l2) .tIdent with
      | none => none
      | some l3 =>
        -- don't skip newlines. the outer routine needs to know about it
        some (if isSpace r then l3.addPos 1 else l3).ignore

/-- `lexSoyDocParam`: `l.pos` is at "@param" -/
def lexSoyDocParam (l : Lexer) : Option Lexer :=
  let l0 : Lexer := { l with pos := l.pos + 6 }
  match l0.next with
  | none => none
  | some (ch, l1) =>
    if ch = 63 then
      match l1.next with
      | none => none
      | some (c2, l2) =>
        if c2 ≠ 32 then some l2
        else
          match l2.backup.emit .tSoyDocOptionalParam with
          | none => none
          | some l3 => lexSoyDocParamName l3
    else if ch = 32 then
      match l1.backup.emit .tSoyDocParam with
      | none => none
      | some l2 => lexSoyDocParamName l2
    else some l1 -- what a fakeout

theorem lexSoyDocParamName_spec {l l' : Lexer} (h : lexSoyDocParamName l = some l')
    (hle : l.pos ≤ l.len) : l'.input = l.input ∧ l.pos - 1 ≤ l'.pos := by
  unfold lexSoyDocParamName at h
  split at h
  · exact absurd h (by simp)
  · rename_i r1 l1 h1
    have s1 := scanWhile_spec _ _ l h1
    split at h
    · exact absurd h (by simp)
    · rename_i r2 l2 h2
      have s2 := scanWhile_spec _ _ _ h2
      split at h
      · exact absurd h (by simp)
      · rename_i l3 h3
        have s3 := emit_spec h3
        simp only [Option.some.injEq] at h
        simp only [Lexer.backup, Lexer.ignore, Lexer.len] at s1 s2 s3 hle ⊢
        have e1 : l2.input = l.input := s2.1.trans s1.1
        have hl1 : l1.pos ≤ (l.input.size : Int) := s1.2.2.1 hle
        have hl2 : l2.pos ≤ (l.input.size : Int) := by
          have := s2.2.2.1; rw [s1.1] at this; apply this; omega
        have hp3 : l2.pos - 1 ≤ l3.pos := by
          split at s3
          · have := s3.2.1 (by simp only [Lexer.addPos]; rw [e1]; omega)
            simp only [Lexer.addPos] at this; omega
          · have := s3.2.1 (by rw [e1]; omega)
            omega
        have hi3 : l3.input = l.input := by
          split at s3 <;> (try simp only [Lexer.addPos] at s3) <;> exact s3.1.trans e1
        subst h
        refine ⟨?_, ?_⟩
        · split <;> simp only [Lexer.ignore, Lexer.addPos, hi3]
        · split <;> simp only [Lexer.ignore, Lexer.addPos] <;> omega

theorem lexSoyDocParam_spec {l l' : Lexer} (h : lexSoyDocParam l = some l')
    (hle : l.pos + 6 ≤ l.len) : l'.input = l.input ∧ l.pos ≤ l'.pos := by
  unfold lexSoyDocParam at h
  simp only at h
  split at h
  · exact absurd h (by simp)
  · rename_i ch l1 hn1
    have n1 := next_spec hn1
    have i1 : l1.input = l.input := n1.1
    have len0 : (Lexer.len { l with pos := l.pos + 6 }) = l.len := rfl
    have p1 : l.pos + 6 ≤ l1.pos ∧ l1.pos ≤ l.len ∧ l.pos + 6 = l1.pos - l1.width := by
      rcases n1.2 with ⟨_, _, hp, hw⟩ | ⟨_, _, _, hw, hp, hl⟩
      · simp only at hp; rw [len0] at *; omega
      · simp only at hp; rw [len0] at *; omega
    split at h
    · split at h
      · exact absurd h (by simp)
      · rename_i c2 l2 hn2
        have n2 := next_spec hn2
        have i2 : l2.input = l.input := n2.1.trans i1
        have len1 : l1.len = l.len := by simp [Lexer.len, i1]
        have p2 : l1.pos ≤ l2.pos ∧ l2.pos ≤ l.len ∧ l1.pos = l2.pos - l2.width := by
          rcases n2.2 with ⟨_, _, hp, hw⟩ | ⟨_, _, _, hw, hp, hl⟩
          · rw [len1] at *; omega
          · rw [len1] at *; omega
        split at h
        · simp only [Option.some.injEq] at h; subst h
          exact ⟨i2, by omega⟩
        · split at h
          · exact absurd h (by simp)
          · rename_i l3 he
            have e := emit_spec he
            simp only [Lexer.backup, Lexer.len] at e
            have hp3 : l3.pos = l2.pos - l2.width := by
              apply e.2.1; rw [i2]; simp only [Lexer.len] at p1 p2; omega
            have s := lexSoyDocParamName_spec h (by
              simp only [Lexer.len, e.1, i2, hp3]; simp only [Lexer.len] at p1 p2; omega)
            exact ⟨s.1.trans (e.1.trans i2), by omega⟩
    · split at h
      · split at h
        · exact absurd h (by simp)
        · rename_i l2 he
          have e := emit_spec he
          simp only [Lexer.backup, Lexer.len] at e
          have hp2 : l2.pos = l1.pos - l1.width := by
            apply e.2.1; rw [i1]; simp only [Lexer.len] at p1; omega
          have s := lexSoyDocParamName_spec h (by
            simp only [Lexer.len, e.1, i1, hp2]; simp only [Lexer.len] at p1; omega)
          exact ⟨s.1.trans (e.1.trans i1), by omega⟩
      · simp only [Option.some.injEq] at h; subst h
        exact ⟨i1, by omega⟩

theorem hasPrefixAt_true {s : Array UInt8} {pos : Int} {pre : Bytes}
    (h : hasPrefixAt s pos pre = some true) : 0 ≤ pos ∧ pos + pre.length ≤ s.size := by
  unfold hasPrefixAt at h
  split at h
  · rename_i hb
    simp only [Option.some.injEq, beq_iff_eq] at h
    have := congrArg List.length h
    simp only [Array.length_toList, Array.size_extract] at this
    omega
  · exact absurd h (by simp)

def atParam : Bytes := [64, 112, 97, 114, 97, 109] -- "@param"


theorem isEndOfLine_isSpaceEOL {r : Int} (h : isEndOfLine r = true) : isSpaceEOL r = true := by
  simp [isSpaceEOL, h]

/-- the `for` loop of `lexSoyDoc`; `star`, `startOfLine` are its loop variables.
    Measure: a `startOfLine` iteration that meets a non-space, non-`*` character steps back
    (`l.pos--`) and clears `startOfLine`, every other iteration moves forward. -/
def lexSoyDocLoop (l : Lexer) (docStart : Int) (star startOfLine : Bool) : Res :=
  match h : l.next with
  | none => none
  | some (ch, l1) =>
    if hE : ch = eof then errorfAt l1 docStart clsSoyDoc
    else if star = true ∧ ch = 47 then
      match maybeEmitText l1 2 with
      | none => none
      | some l2 =>
        match l2.emit .tSoyDocEnd with
        | none => none
        | some l3 => some (some .text, l3)
    else if hS : startOfLine = true then
      -- ignore any space or asterisks at the beginning of lines
      if hSp : isSpaceEOL ch = true then lexSoyDocLoop l1 docStart star true
      else if hSt : ch = 42 then lexSoyDocLoop l1 docStart true true
      else
        -- l.pos--; l.ignore(); start with @param?
        match hPre : hasPrefixAt l1.input (l1.pos - 1) atParam with
        | none => none
        | some pre =>
          match hP : (if pre = true then lexSoyDocParam (l1.addPos (-1)).ignore
                      else some (l1.addPos (-1)).ignore) with
          | none => none
          | some l2 =>
            -- startOfLine = false
            if hEol : isEndOfLine ch = true then
              match hM : maybeEmitText l2 1 with
              | none => none
              | some l3 => lexSoyDocLoop l3 docStart (ch == 42) true
            else lexSoyDocLoop l2 docStart (ch == 42) false
    else
      if hEol : isEndOfLine ch = true then
        match hM : maybeEmitText l1 1 with
        | none => none
        | some l2 => lexSoyDocLoop l2 docStart (ch == 42) true
      else lexSoyDocLoop l1 docStart (ch == 42) false
termination_by 2 * l.rem + (if startOfLine = true then 1 else 0)
decreasing_by
  · have := next_rem_lt h hE
    simp only [hS, if_true]; omega
  · have := next_rem_lt h hE
    simp only [hS, if_true]; omega
  · exact absurd (isEndOfLine_isSpaceEOL hEol) hSp
  · -- stepped back by one, `startOfLine` cleared
    have n := next_spec h
    have hl1 : l1.len = l.len := next_len h
    rcases n.2 with ⟨_, he, _⟩ | ⟨h0, h1, _, hw, hp, hle⟩
    · exact absurd he hE
    · have key : l2.input = l.input ∧ l1.pos - 1 ≤ l2.pos := by
        split at hP
        · rename_i hpre
          subst hpre
          have := hasPrefixAt_true hPre
          have s := lexSoyDocParam_spec hP (by
            simp only [Lexer.ignore, Lexer.addPos, Lexer.len, atParam, List.length] at this ⊢
            omega)
          simp only [Lexer.ignore, Lexer.addPos] at s
          exact ⟨s.1.trans n.1, by omega⟩
        · simp only [Option.some.injEq] at hP
          subst hP
          simp only [Lexer.ignore, Lexer.addPos]
          exact ⟨n.1, by omega⟩
      simp only [hS, if_true, Lexer.rem, Lexer.len, key.1] at *
      simp only [Bool.false_eq_true, if_false]
      omega
  · -- an end of line: maybeEmitText(l, 1) leaves pos where it was
    have n := next_spec h
    have hl1 : l1.len = l.len := next_len h
    rcases n.2 with ⟨_, he, _⟩ | ⟨h0, h1, _, hw, hp, hle⟩
    · exact absurd he hE
    · have m := maybeEmitText_spec hM
      have : l2.pos = l1.pos := m.2.1 (by omega)
      simp only [Lexer.rem, Lexer.len, m.1, n.1, this] at *
      first | omega | (split <;> omega) | (split <;> split <;> omega)
  · have := next_rem_lt h hE
    first | omega | (split <;> omega) | (split <;> split <;> omega)

/-- `lexSoyDoc`: '/**' has just been read -/
def lexSoyDoc (l : Lexer) : Res :=
  -- var docStart = l.start
  match l.emit .tSoyDocStart with
  | none => none
  | some l1 => lexSoyDocLoop l1 l.start false true

/-- `noChar`: "nothing read yet in this run of text" (/repo 67d6dd1; it was rune 0, so a NUL before
    `//` made it a comment).  Decoding never yields it; `r = eof` (also -1) ends the loop, so
    `lastChar` never holds `eof`. -/
def noChar : Int := -1

/-- the `for` loop of `lexText`; `lastChar` is the previous value of `r` (`noChar` at the start) -/
def lexTextLoop (l : Lexer) (lastChar : Int) : Res :=
  match h : l.next with
  | none => none
  | some (r, l1) =>
    -- comment / soydoc handling
    if hS : r = 47 then
      match h2 : l1.next with
      | none => none
      | some (r2, l2) =>
        if r2 = 47 then
          -- '//' only begins a comment if the previous character is whitespace,
          -- or if we are the start of input.
          let lastCharEmitted : Int :=
            if lastChar = noChar ∧ l2.lastEmit.val ≠ [] then ((l2.lastEmit.val.getLast?.getD 0).toNat : Int)
            else lastChar
          if lastCharEmitted = noChar ∨ isSpaceEOL lastCharEmitted = true then
            match maybeEmitText l2 3 with
            | none => none
            | some l3 =>
              -- ignore the preceding space, if present.
              lexLineComment (if lastChar ≠ noChar then { l3 with start := l3.start + 1 } else l3)
          else lexTextLoop l2.backup r -- `switch r` has no case for '/'
        else if r2 = 42 then
          match maybeEmitText l2 2 with
          | none => none
          | some l3 =>
            match l3.next with
            | none => none
            | some (r3, l4) =>
              if r3 = 42 then
                -- "/**/" is an empty block comment, not the start of a soydoc (/repo 73e5662)
                match l4.peek with
                | none => none
                | some (p4, l5) =>
                  if p4 = 47 then
                    match l5.next with
                    | none => none
                    | some (_, l6) =>
                      match l6.emit .tComment with
                      | none => none
                      | some l7 => some (some .text, l7)
                  else lexSoyDoc l5
              else lexBlockComment l4.backup false
        else lexTextLoop l2.backup r
    -- eof or entering a tag?
    else if r = 123 then
      match maybeEmitText l1.backup 0 with
      | none => none
      | some l2 => some (some .leftDelim, l2)
    else if r = 125 then errorf l1
    else if hE : r = eof then
      match maybeEmitText l1.backup 0 with
      | none => none
      | some l2 =>
        match l2.emit .tEOF with
        | none => none
        | some l3 => some (none, l3)
    else lexTextLoop l1 r
termination_by l.rem
decreasing_by
  · rw [next_backup_rem h2]; exact next_rem_lt h (by rw [hS]; decide)
  · rw [next_backup_rem h2]; exact next_rem_lt h (by rw [hS]; decide)
  · exact next_rem_lt h hE

/-- `lexText` scans until an opening command delimiter, "{" -/
def lexText (l : Lexer) : Res := lexTextLoop l noChar

/-- `lexLeftDelim` -/
def lexLeftDelim (l : Lexer) : Res := do
  let l : Lexer := { l with tagStart := l.start }
  let (_, l) ← l.next -- read the first {
  let (r, l) ← l.next
  let l : Lexer := if r = 123 then { l with doubleDelim := true } else { l.backup with doubleDelim := false }
  let l ← l.emit .tLeftDelim
  pure (some .beginTag, l)

/-- `lexRightDelim`: } has already been read -/
def lexRightDelim (l : Lexer) : Res := do
  let (bad, l) ← badDoubleClose l
  if bad then errorfAt l l.start clsBraces
  else do
    let l ← l.emit .tRightDelim
    pure (some .text, l)

/-- `lexRightDelimEnd`: / has already been read -/
def lexRightDelimEnd (l : Lexer) : Res := do
  let (_, l) ← l.next
  let (bad, l) ← badDoubleClose l
  if bad then errorfAt l l.start clsBraces
  else do
    let l ← l.emit .tRightDelimEnd
    pure (some .text, l)

/-- `lexBeginTag` -/
def lexBeginTag (l : Lexer) : Res := do
  let (r, l) ← l.peek
  if r = 47 ∨ r = 92 then pure (some .ident, l) else pure (some .insideTag, l)

/-- `lexNegative` (called by lexInsideTag after reading '-') -/
def lexNegative (l : Lexer) : Res :=
  -- unary if it starts a group or an op came just before: the generated predecessor set
  if Gen.unaryMinusAfter.contains l.lastEmit.typ then do
    -- is it a negative number?  `l.peek() >= '0' && l.peek() <= '9'`
    let (p1, l) ← l.peek
    let (isNum, l) ← (if p1 ≥ 48 then do
        let (p2, l) ← l.peek
        pure (decide (p2 ≤ 57), l)
      else pure (false, l) : Option (Bool × Lexer))
    if isNum then pure (some .number, l.backup)
    else do
      let l ← l.emit .tNegate
      pure (some .insideTag, l)
  else do
    let l ← l.emit .tSub
    pure (some .insideTag, l)

/-- emit `t` and stay in lexInsideTag -/
def emitInside (l : Lexer) (t : ItemType) : Res := do
  let l ← l.emit t
  pure (some .insideTag, l)

/-- what may continue a 1-character comparison symbol: only `=` (`>=` `<=` `!=` `==`); `$a<-1` is
    `$a < -1` (/repo 967cc86; it was "*/%+-=!<>|&?:", so `<-` was one unknown symbol) -/
def symbolChars : List Int := [61] -- "="

/-- lexInsideTag, `case r == '>', r == '!', r == '<', r == '=' && l.peek() == '='`:
    1 or 2 character symbols -/
def lexSymbol (l : Lexer) : Res := do
  let (_, l) ← accept l symbolChars
  let sym ← sliceOf l.input l.start l.pos
  match Gen.symbols.lookup sym with
  | none => errorf l
  | some t => emitInside l t

/-- lexInsideTag, the cases after the symbols (`case r == '"', r == '\''` … `default`) -/
def lexInsideTagRest (r : Int) (l : Lexer) : Res :=
  if r = 34 ∨ r = 39 then pure (some (.str r), l)
  else if r = 61 then emitInside l .tEquals
  else if r = eof then errorfAt l l.tagStart clsTag
  else if r = 124 then emitInside l .tPipe
  else if isLetterOrUnderscore r then pure (some .ident, l.backup)
  else if r = 44 then emitInside l .tComma
  else if r = 64 then pure (some .headerParam, l)
  else errorf l

/-- lexInsideTag, the cases from `case r == '$', r == '.'` on (`r` is the rune read, `l` the
    lexer after evaluating the case conditions before) -/
def lexInsideTagMid (r : Int) (l : Lexer) : Res :=
  if r = 36 ∨ r = 46 then pure (some .ident, l.backup)
  else if r = 91 then emitInside l .tLeftBracket
  else if r = 93 then emitInside l .tRightBracket
  else if r = 63 then do -- used by data refs and arithmetic
    let (r2, l) ← l.next
    if r2 = 46 then pure (some .ident, l.addPos (-2))
    else if r2 = 91 then emitInside l .tQuestionKey
    else if r2 = 58 then emitInside l .tElvis
    else emitInside l.backup .tTernIf
  else if r = 45 then lexNegative l
  else if r = 125 then pure (some .rightDelim, l)
  else if 48 ≤ r ∧ r ≤ 57 then pure (some .number, l.backup)
  else if r = 42 ∨ r = 47 ∨ r = 37 ∨ r = 43 ∨ r = 58 ∨ r = 40 ∨ r = 41 then
    -- the single-character symbols: arithmeticItemsBySymbol[string(r)] (zero value if absent)
    emitInside l ((Gen.symbols.lookup [r.toNat.toUInt8]).getD .tInvalid)
  else if r = 62 ∨ r = 33 ∨ r = 60 then lexSymbol l
  else if r = 61 then do
    -- `r == '=' && l.peek() == '='`
    let (p, l) ← l.peek
    if p = 61 then lexSymbol l else lexInsideTagRest r l
  else lexInsideTagRest r l

/-- `lexInsideTag` -/
def lexInsideTag (l : Lexer) : Res := do
  let (r, l) ← l.next
  if isSpaceEOL r then pure (some .insideTag, l.ignore)
  else if r = 47 then do
    -- case r == '/' && l.peek() == '}'
    let (p, l) ← l.peek
    if p = 125 then pure (some .rightDelimEnd, l) else lexInsideTagMid r l
  else lexInsideTagMid r l

/-- the state function returned by `stringLexer(quoteChar)`; the quote has been read -/
def lexString (quote : Int) (l : Lexer) : Res :=
  match h : l.next with
  | none => none
  | some (r, l1) =>
    if hE : r = eof then errorfAt l1 l1.start clsString
    else if r = 92 then
      -- skip escape sequences
      match h2 : l1.next with
      | none => none
      | some (_, l2) => lexString quote l2
    else if r = quote then
      match l1.emit .tString with
      | none => none
      | some l2 => some (some .insideTag, l2)
    else lexString quote l1
termination_by l.rem
decreasing_by
  · exact Nat.lt_of_le_of_lt (next_rem_le h2) (next_rem_lt h hE)
  · exact next_rem_lt h hE

/-- second part of `lexIdent`: absorb the rest of the identifier and classify it -/
def lexIdentRest (l : Lexer) (itemType : ItemType) : Res := do
  let (_, l) ← scanWhile isAlphaNumeric isAlphaNumeric_eof l
  let l := l.backup
  let word ← sliceOf l.input l.start l.pos
  -- if it's a builtin, return that item type
  match Gen.builtinIdents.lookup word with
  | some t => do
    let l ← l.emit t
    -- {literal} and {css} have unusual lexing rules
    if t = .tLiteral then pure (some .literal, l)
    else if t = .tCss then pure (some .css, l)
    else pure (some .insideTag, l)
  | none =>
    -- if not a builtin, it shouldn't start with / or \
    if itemType = .tCommandEnd ∨ itemType = .tSpecialChar then do
      let _ ← sliceOf l.input l.start l.pos
      errorf { l with pos := l.start }
    else emitInside l itemType -- else, use the type determined at the beginning.

/-- `lexIdent` recognizes the various kinds of identifiers -/
def lexIdent (l : Lexer) : Res := do
  let (r, l) ← l.next
  if r = 46 then do
    let (d, l) ← l.next
    -- a name begins with a letter or an underscore: "$a." or ".٣" is not one (/repo 8984077)
    if isDigit d then lexIdentRest l.backup .tDotIndex
    else if d = 95 ∨ isLetterU d = true then lexIdentRest l.backup .tDotIdent
    else errorfAt l l.start clsName
  else if r = 36 then do
    -- a variable name begins with a letter or an underscore.
    let (p, l) ← l.peek
    if p ≠ 95 ∧ !isLetterU p then errorf l
    else lexIdentRest l .tDollarIdent
  else if r = 47 then lexIdentRest l .tCommandEnd
  else if r = 92 then lexIdentRest l .tSpecialChar
  else if r = 63 then do
    let (dot, l) ← l.next
    if dot ≠ 46 then errorf l
    else do
      let (d, l) ← l.next
      if isDigit d then lexIdentRest l.backup .tQuestionDotIndex
      else if d = 95 ∨ isLetterU d = true then lexIdentRest l.backup .tQuestionDotIdent
      else errorfAt l l.start clsName
  else lexIdentRest l .tIdent

/-- the type scan of `lexHeaderParam`:
    `for ch := l.next(); ch != '=' && ch != '}'; ch = l.next() { if ch == eof {error}; if !isSpace(ch) { lastNonSpace = l.pos } }`.
    Returns the rune that ended the loop (eof = the error exit), the lexer and `lastNonSpace`. -/
def headerTypeLoop (l : Lexer) (lastNonSpace : Int) : Option (Int × Lexer × Int) :=
  match h : l.next with
  | none => none
  | some (ch, l1) =>
    if ch = 61 ∨ ch = 125 then some (ch, l1, lastNonSpace)
    else if hE : ch = eof then some (ch, l1, lastNonSpace)
    else headerTypeLoop l1 (if isSpace ch then lastNonSpace else l1.pos)
termination_by l.rem
decreasing_by exact next_rem_lt h hE

def kwParam : Bytes := [112, 97, 114, 97, 109] -- "param"

/-- `lexHeaderParam`: '@' has just been read -/
def lexHeaderParam (l : Lexer) : Res := do
  let pre ← hasPrefixAt l.input l.pos kwParam
  if !pre then errorf l
  else do
    let l := l.addPos 5
    let (q, l) ← l.next
    let l ← (if q = 63 then l.emit .tHeaderOptionalParam else l.backup.emit .tHeaderParam)
    let l ← skipSpace l
    -- Consume the (simple) identifier.
    let (_, l) ← scanWhile isAlphaNumeric isAlphaNumeric_eof l
    let l ← l.backup.emit .tIdent
    let l ← skipSpace l
    -- Consume the ':'
    let (c, l) ← l.next
    if c ≠ 58 then errorfAt l l.tagStart clsTag   -- reported at the `{` of the tag (/repo ac1c871; it was `errorf`)
    else do
      let l ← l.emit .tColon
      let l ← skipSpace l
      -- Consume until the equals or end of the tag.
      let (ch, l, lastNonSpace) ← headerTypeLoop l l.pos
      if ch = eof then errorfAt l l.tagStart clsTag
      else do
        let l : Lexer := { l with pos := lastNonSpace }
        let l ← l.emit .tHeaderParamType
        let l ← skipSpace l
        pure (some .insideTag, l)

/-- loop condition of the body scan of `lexCss` (`ch != '}'`, leaving on eof with an error) -/
def cssBody (ch : Int) : Bool := !(ch == 125) && !(ch == eof)

/-- `lexCss`: itemCss has already been emitted -/
def lexCss (l : Lexer) : Res := do
  let (_, l) ← l.next
  let l := l.ignore
  let (ch, l) ← scanWhile cssBody (by decide) l
  if ch = eof then errorfAt l l.tagStart clsTag
  else do
    let l ← l.backup.emit .tText
    let (_, l) ← l.next
    let (bad, l) ← badDoubleClose l
    if bad then errorfAt l l.start clsBraces
    else do
      let l ← l.emit .tRightDelim
      pure (some .text, l)

def closeLiteral1 : Bytes := [123, 47, 108, 105, 116, 101, 114, 97, 108, 125] -- "{/literal}"
def closeLiteral2 : Bytes := [123, 123, 47, 108, 105, 116, 101, 114, 97, 108, 125, 125] -- "{{/literal}}"

/-- `lexLiteral`: itemLiteral has already been emitted -/
def lexLiteral (l : Lexer) : Res := do
  -- emit the closing of the initial {literal} tag
  let (ch, l) ← scanWhile isSpace (by decide) l
  if ch ≠ 125 then errorfAt l l.tagStart clsTag   -- reported at the `{` of the tag (/repo ac1c871; it was `errorf`)
  else do
    let (bad, l) ← badDoubleClose l
    if bad then errorfAt l l.start clsBraces
    else do
      let l ← l.emit .tRightDelim
      -- Fast forward through the literal section.
      let expectClose := if l.doubleDelim then closeLiteral2 else closeLiteral1
      let delimLen : Int := if l.doubleDelim then 2 else 1
      let rest ← sliceFrom l.input l.pos
      match stringsIndex expectClose rest with
      | none => errorfAt l l.tagStart clsLiteral
      | some i => do
        let l := l.addPos i
        let l ← (if i > 0 then l.emit .tText else pure l)
        let l ← (l.addPos delimLen).emit .tLeftDelim
        let l ← (l.addPos 8).emit .tLiteralEnd
        let l ← (l.addPos delimLen).emit .tRightDelim
        pure (some .text, l)

def decDigits : List Int := [48, 49, 50, 51, 52, 53, 54, 55, 56, 57]
def hexDigits : List Int := [48, 49, 50, 51, 52, 53, 54, 55, 56, 57, 65, 66, 67, 68, 69, 70]

/-- the end of `scanNumber`: next thing must not be alphanumeric -/
def scanNumberEnd (l : Lexer) (typ : ItemType) : Option (ItemType × Bool × Lexer) := do
  let (p, l) ← l.peek
  if isAlphaNumeric p then do
    let (_, l) ← l.next
    pure (typ, false, l)
  else pure (typ, true, l)

/-- optional exponent of a decimal number, then the end check -/
def scanNumberExp (l : Lexer) (typ : ItemType) : Option (ItemType × Bool × Lexer) := do
  let (e, l) ← accept l [101]
  if e then do
    let (_, l) ← accept l [43, 45]
    let (ok, l) ← acceptRun l decDigits
    if !ok then pure (typ, false, l) -- A digit is required after the scientific notation.
    else scanNumberEnd l .tFloat
  else scanNumberEnd l typ

/-- `scanNumber`: (typ, ok, lexer) -/
def scanNumber (l : Lexer) : Option (ItemType × Bool × Lexer) := do
  -- Optional leading sign.
  let (hasSign, l) ← accept l [43, 45]
  let isHex ← (if l.len ≥ l.pos + 2 then do
      let s ← sliceOf l.input l.pos (l.pos + 2)
      pure (s == [48, 120])
    else pure false : Option Bool)
  if isHex then
    -- Hexadecimal.
    if hasSign then pure (.tInteger, false, l) -- No signs for hexadecimals.
    else do
      -- `l.pos += 2`: exactly the two bytes of the prefix (7a9e4b4; it was acceptRun("0x"))
      let l : Lexer := { l with pos := l.pos + 2 }
      let (ok, l) ← acceptRun l hexDigits
      if !ok then pure (.tInteger, false, l) -- Requires at least one digit.
      else do
        let (dot, l) ← accept l [46]
        if dot then pure (.tInteger, false, l) -- No dots for hexadecimals.
        else scanNumberEnd l .tInteger
  else do
    -- Decimal.
    let (ok, l) ← acceptRun l decDigits
    if !ok then pure (.tInteger, false, l) -- Requires at least one digit.
    else do
      let (dot, l) ← accept l [46]
      if dot then do
        -- Float.
        let (ok, l) ← acceptRun l decDigits
        if !ok then pure (.tInteger, false, l) -- Requires a digit after the dot.
        else scanNumberExp l .tFloat
      else do
        -- Integers can't start with 0.
        let bad ← (if !hasSign then do
            let b ← indexOf l.input l.start
            pure (b == 48 && decide (l.pos > l.start + 1))
          else do
            let b ← indexOf l.input (l.start + 1)
            pure (b == 48 && decide (l.pos > l.start + 2)) : Option Bool)
        if bad then pure (.tInteger, false, l)
        else scanNumberExp l .tInteger

/-- `lexNumber` -/
def lexNumber (l : Lexer) : Res := do
  let (typ, ok, l) ← scanNumber l
  if !ok then do
    let _ ← sliceOf l.input l.start l.pos -- the argument of the error message
    errorf l
  else emitInside l typ -- Emits itemFloat or itemInteger.

/-! ## The state machine -/

/-- one call `l.state(l)` -/
def step : St → Lexer → Res
  | .text, l => lexText l
  | .leftDelim, l => lexLeftDelim l
  | .rightDelim, l => lexRightDelim l
  | .rightDelimEnd, l => lexRightDelimEnd l
  | .beginTag, l => lexBeginTag l
  | .insideTag, l => lexInsideTag l
  | .ident, l => lexIdent l
  | .number, l => lexNumber l
  | .headerParam, l => lexHeaderParam l
  | .css, l => lexCss l
  | .literal, l => lexLiteral l
  | .str q, l => lexString q l

inductive LexResult where
  /-- the channel was closed after these items -/
  | items (is : List Item)
  /-- a Go runtime panic in the lexer goroutine -/
  | panic
  /-- the budget of state transitions was used up -/
  | fuelOut
  deriving Repr, DecidableEq

/-- `for l.state != nil { l.state = l.state(l) }; close(l.items)` with a budget -/
def run : Nat → St → Lexer → LexResult
  | 0, _, _ => .fuelOut
  | n + 1, s, l =>
    match step s l with
    | none => .panic
    | some (none, l') => .items l'.items.toList
    | some (some s', l') => run n s' l'

/-- budget of state transitions for an input of `n` bytes -/
def fuelFor (n : Nat) : Nat := 7 * n + 8

def initLexer (input : Bytes) : Lexer := { input := input.toArray }

/-- `lex(name, input)` (file mode, starts in lexText) / `lexExpr(name, input)` (starts in
    lexInsideTag): everything the parser can receive from the channel. -/
def lexAll (input : Bytes) (exprMode : Bool) : LexResult :=
  run (fuelFor input.length) (if exprMode then .insideTag else .text) (initLexer input)

/-- the hand-written item type agrees with the running code's const block -/
theorem itemOrder_ok : Gen.itemOrder = ItemType.all := by decide

end SoyVerif.Model.Lex
