/-
  C16 — facts about the GENERATED unicode.IsPrint table (Gen/UnicodePrint.lean, dumped from the
  Go toolchain in use on every run) on which text/template.JSEscape silently relies, and the
  proposed escaper evaluated with that table.
-/
import SoyVerif.Props.C16

namespace SoyVerif.Inst.C16
open SoyVerif SoyVerif.Model SoyVerif.Spec

set_option maxRecDepth 100000 in
/-- the line/paragraph separators are "not printable" (that is the only reason
    text/template.JSEscape escapes them; `jsEscapeFixed` tests for them explicitly), U+FFFD is
    printable (so JSEscape copies invalid bytes raw), the private-use planes are not -/
theorem isPrint_table_facts :
    isPrint 0x2028 = false ∧ isPrint 0x2029 = false ∧ isPrint 0xFFFD = true ∧
    isPrint 0xF0000 = false ∧ isPrint 0x10FFFF = false ∧ isPrint 0xE9 = true ∧ isPrint 0x1F600 = true := by
  decide

/- U+F0000 then é, with the live table: surrogate pair, é copied -/
set_option maxRecDepth 100000 in
example : jsEscapeFixed [243, 176, 128, 128, 195, 169] =
    [92, 117, 68, 66, 56, 48, 92, 117, 68, 67, 48, 48, 195, 169] := by decide

/- what the model of text/template.JSEscape (= the code today) writes for U+F0000: 0 -/
set_option maxRecDepth 100000 in
example : jsEscape [243, 176, 128, 128] = [92, 117, 70, 48, 48, 48, 48] := by decide

end SoyVerif.Inst.C16
