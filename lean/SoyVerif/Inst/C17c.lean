/-
  Instantiation of Props/C17c.lean (print commands at byte level) at the generated lexer tables, and an evaluated example.
-/
import SoyVerif.Props.C17c
import SoyVerif.Props.C17d
import SoyVerif.Inst.C17b

namespace SoyVerif.Inst.C17c
open SoyVerif SoyVerif.Model SoyVerif.Model.Lex SoyVerif.Model.PrintTokens SoyVerif.Model.Printer
open SoyVerif.Props.C17c
open SoyVerif.Inst.C17b (lexTableOK)
open SoyVerif.Inst.C17 (ff0 i v)

/-- `lex_print_cmd` without table hypothesis -/
theorem lex_print_cmd (ff : UInt64 → Bytes) (arg : Expr) (dirs : List Directive) (h : CmdOk ff arg dirs) :
    ∃ items, lexAll (printPrint ff arg dirs) false = .items items ∧
      items.map Item.tk = ⟨.tLeftDelim, [123]⟩ :: (unsp (piecesBody ff arg dirs) ++ [⟨.tRightDelim, [125]⟩, ⟨.tEOF, []⟩]) :=
  SoyVerif.Props.C17c.lex_print_cmd ff lexTableOK arg dirs h

/-- `{$a ?: -1|truncate:$b ? 1 : 2,-3|id}` -/
def exArg : Expr := .bin .elvis 0 (v 97) (i (-1))
def exDirs : List Directive :=
  [⟨0, [116, 114, 117, 110, 99, 97, 116, 101], [.tern 0 (v 98) (i 1) (i 2), i (-3)]⟩, ⟨0, [105, 100], []⟩]

example : printPrint ff0 exArg exDirs =
    [123, 36, 97, 32, 63, 58, 32, 45, 49, 124, 116, 114, 117, 110, 99, 97, 116, 101, 58, 36, 98, 32, 63, 32, 49, 32, 58, 32, 50,
      44, 45, 51, 124, 105, 100, 125] := by decide

/-- the lexer model on that text (kernel-evaluated): 17 items, the last two RightDelim and EOF -/
example : (match lexAll (printPrint ff0 exArg exDirs) false with
    | .items its => some (its.map (·.typ))
    | _ => none) =
  some [.tLeftDelim, .tDollarIdent, .tElvis, .tInteger, .tPipe, .tIdent, .tColon, .tDollarIdent, .tTernIf, .tInteger, .tColon,
    .tInteger, .tComma, .tInteger, .tPipe, .tIdent, .tRightDelim, .tEOF] := by decide +kernel

open SoyVerif.Inst.C17 (tableOK pf0)
open SoyVerif.Model.Parser SoyVerif.Lemmas.ParserBasic
open SoyVerif.Model.FileParser (parsePrint Node)

/-- `print_cmd_roundtrip_bytes` without table hypotheses -/
theorem print_cmd_roundtrip_bytes (ff : UInt64 → Bytes) (pf : Bytes → Option UInt64) (arg : Expr) (dirs : List Directive)
    (hN : CmdOk ff arg dirs) (hC : CmdCanon ff pf arg dirs) (token : Item) :
    ∃ items e' ds' p2, lexAll (printPrint ff arg dirs) false = .items items ∧
      parsePrint pf (8 * items.length + 1) (2 * items.length + 2) token { p := initState items.tail } =
        .ok (Node.print token.pos e' ds', { p := p2 }) ∧
      erase e' = erase arg ∧ ds'.map eraseDir = dirs.map eraseDir ∧ At p2 [⟨.tEOF, []⟩] :=
  SoyVerif.Props.C17c.print_cmd_roundtrip_bytes ff pf lexTableOK tableOK arg dirs hN hC token

/-- `print_cmd_injective_bytes` without table hypotheses -/
theorem print_cmd_injective_bytes (ff : UInt64 → Bytes) (pf : Bytes → Option UInt64) (a b : Expr) (da db : List Directive)
    (hNa : CmdOk ff a da) (hNb : CmdOk ff b db) (hCa : CmdCanon ff pf a da) (hCb : CmdCanon ff pf b db)
    (h : printPrint ff a da = printPrint ff b db) : erase a = erase b ∧ da.map eraseDir = db.map eraseDir :=
  SoyVerif.Props.C17c.print_cmd_injective_bytes ff pf lexTableOK tableOK a b da db hNa hNb hCa hCb h

/-- the hypotheses hold of the example `{$a ?: -1|truncate:$b ? 1 : 2,-3|id}` -/
theorem exCmd_ok : CmdOk ff0 exArg exDirs := by
  refine ⟨by decide, ?_⟩
  intro d hd
  simp only [exDirs, List.mem_cons, List.mem_nil_iff, or_false] at hd
  rcases hd with rfl | rfl
  · refine ⟨⟨116, [114, 117, 110, 99, 97, 116, 101], rfl, by decide, by decide, by decide⟩, ?_⟩
    intro a ha
    simp only [List.mem_cons, List.mem_nil_iff, or_false] at ha
    rcases ha with rfl | rfl <;> decide
  · exact ⟨⟨105, [100], rfl, by decide, by decide, by decide⟩, fun a ha => by cases ha⟩

theorem exCmd_canon : CmdCanon ff0 pf0 exArg exDirs := by
  refine ⟨by simp only [exArg, i, v, Canon, CanonAL]; decide, ?_⟩
  intro d hd a ha
  simp only [exDirs, List.mem_cons, List.mem_nil_iff, or_false] at hd
  rcases hd with rfl | rfl
  · simp only [List.mem_cons, List.mem_nil_iff, or_false] at ha
    rcases ha with rfl | rfl <;> (simp only [i, v, Canon, CanonAL]; decide)
  · cases ha

example : ∃ items e' ds' p2, lexAll (printPrint ff0 exArg exDirs) false = .items items ∧
    parsePrint pf0 (8 * items.length + 1) (2 * items.length + 2) Item.zero { p := initState items.tail } =
      .ok (Node.print 0 e' ds', { p := p2 }) ∧
    erase e' = erase exArg ∧ ds'.map eraseDir = exDirs.map eraseDir ∧ At p2 [⟨.tEOF, []⟩] :=
  print_cmd_roundtrip_bytes ff0 pf0 exArg exDirs exCmd_ok exCmd_canon Item.zero

open SoyVerif.Model.FileParser (parseSource)

/-- `print_cmd_file_roundtrip` without table hypotheses -/
theorem print_cmd_file_roundtrip (ff : UInt64 → Bytes) (pf : Bytes → Option UInt64) (arg : Expr) (dirs : List Directive)
    (hN : CmdOk ff arg dirs) (hC : CmdCanon ff pf arg dirs) :
    ∃ pos e' ds', parseSource pf (printPrint ff arg dirs) = .ok [Node.print pos e' ds'] ∧
      erase e' = erase arg ∧ ds'.map eraseDir = dirs.map eraseDir :=
  SoyVerif.Props.C17c.print_cmd_file_roundtrip ff pf lexTableOK tableOK arg dirs hN hC

/-- `print_cmd_file_injective` without table hypotheses -/
theorem print_cmd_file_injective (ff : UInt64 → Bytes) (pf : Bytes → Option UInt64) (a b : Expr) (da db : List Directive)
    (hNa : CmdOk ff a da) (hNb : CmdOk ff b db) (hCa : CmdCanon ff pf a da) (hCb : CmdCanon ff pf b db)
    (h : parseSource pf (printPrint ff a da) = parseSource pf (printPrint ff b db)) :
    erase a = erase b ∧ da.map eraseDir = db.map eraseDir :=
  SoyVerif.Props.C17c.print_cmd_file_injective ff pf lexTableOK tableOK a b da db hNa hNb hCa hCb h

/-- non-vacuity: the file `{$a ?: -1|truncate:$b ? 1 : 2,-3|id}` parses to the one print node -/
example : ∃ pos e' ds', parseSource pf0 (printPrint ff0 exArg exDirs) = .ok [Node.print pos e' ds'] ∧
    erase e' = erase exArg ∧ ds'.map eraseDir = exDirs.map eraseDir :=
  print_cmd_file_roundtrip ff0 pf0 exArg exDirs exCmd_ok exCmd_canon

open SoyVerif.Props.C15c (textOK textNodes)

/-- `print_cmd_in_body_roundtrip` without table hypotheses -/
theorem print_cmd_in_body_roundtrip (ff : UInt64 → Bytes) (pf : Bytes → Option UInt64) (t1 t2 : Bytes)
    (h1 : t1 = [] ∨ textOK t1) (h2 : t2 = [] ∨ textOK t2) (arg : Expr) (dirs : List Directive)
    (hN : CmdOk ff arg dirs) (hC : CmdCanon ff pf arg dirs) :
    ∃ p1 pos p2 e' ds', parseSource pf (t1 ++ printPrint ff arg dirs ++ t2) =
        .ok (textNodes t1 p1 ++ [Node.print pos e' ds'] ++ textNodes t2 p2) ∧
      erase e' = erase arg ∧ ds'.map eraseDir = dirs.map eraseDir :=
  SoyVerif.Props.C17d.print_cmd_in_body_roundtrip ff pf lexTableOK tableOK t1 t2 h1 h2 arg dirs hN hC

/-- non-vacuity: `Hi {$a ?: -1|truncate:$b ? 1 : 2,-3|id}!⏎` -/
example : ∃ p1 pos p2 e' ds', parseSource pf0 ([72, 105, 32] ++ printPrint ff0 exArg exDirs ++ [33, 10]) =
      .ok (textNodes [72, 105, 32] p1 ++ [Node.print pos e' ds'] ++ textNodes [33, 10] p2) ∧
    erase e' = erase exArg ∧ ds'.map eraseDir = exDirs.map eraseDir :=
  print_cmd_in_body_roundtrip ff0 pf0 _ _ (Or.inr (by decide)) (Or.inr (by decide)) exArg exDirs exCmd_ok exCmd_canon

open SoyVerif.Props.C17d (CBody BPiece WFL CanonB NodesMatch srcOfC itemsOfC)

/-- `body_source_spec_cmds` without table hypotheses -/
theorem body_source_spec_cmds (ff : UInt64 → Bytes) (pf : Bytes → Option UInt64) (b : CBody) (hw : WFL ff b)
    (hc : CanonB ff pf b) :
    lexAll (srcOfC ff b) false = .items (itemsOfC ff 0 b) ∧
      ∃ nl, parseSource pf (srcOfC ff b) = .ok nl ∧ NodesMatch nl b :=
  SoyVerif.Props.C17d.body_source_spec_cmds ff pf lexTableOK tableOK b hw hc

/-- `Hi {$a ?: -1|truncate:$b ? 1 : 2,-3|id}⏎␣␣{$a}!` -/
def exBody : CBody := [.text [72, 105, 32], .cmd exArg exDirs, .text [10, 32, 32], .cmd (v 97) [], .text [33]]

theorem exBody_wf : WFL ff0 exBody :=
  ⟨by decide, by simp [BPiece.isText], exCmd_ok, by decide, by simp [BPiece.isText],
    ⟨by decide, fun d hd => by cases hd⟩, by decide, by simp, trivial⟩

theorem exBody_canon : CanonB ff0 pf0 exBody :=
  ⟨exCmd_canon, ⟨by simp only [v, Canon, CanonAL], fun d hd => by cases hd⟩, trivial⟩

/-- non-vacuity: two print commands, three text pieces (the middle one dropped by the lexer) -/
example : lexAll (srcOfC ff0 exBody) false = .items (itemsOfC ff0 0 exBody) ∧
    ∃ nl, parseSource pf0 (srcOfC ff0 exBody) = .ok nl ∧ NodesMatch nl exBody :=
  body_source_spec_cmds ff0 pf0 exBody exBody_wf exBody_canon

open SoyVerif.Props.C17d (NameOk frameSrc frameItems)

/-- `template_frame_spec` without table hypotheses -/
theorem template_frame_spec (ff : UInt64 → Bytes) (pf : Bytes → Option UInt64) (nm : Bytes) (hnm : NameOk nm) (b : CBody)
    (hw : WFL ff b) (hc : CanonB ff pf b) :
    lexAll (frameSrc ff nm b) false = .items (frameItems ff nm b) ∧
      ∃ tpos lp nl, parseSource pf (frameSrc ff nm b) =
          .ok [Node.template tpos (46 :: nm) (.list lp nl) .unspecified false] ∧ NodesMatch nl.toList b :=
  SoyVerif.Props.C17d.template_frame_spec ff pf lexTableOK tableOK nm hnm b hw hc

/-- non-vacuity: `{template .t1}Hi {$a ?: -1|truncate:$b ? 1 : 2,-3|id}⏎␣␣{$a}!{/template}` -/
example : lexAll (frameSrc ff0 [116, 49] exBody) false = .items (frameItems ff0 [116, 49] exBody) ∧
    ∃ tpos lp nl, parseSource pf0 (frameSrc ff0 [116, 49] exBody) =
        .ok [Node.template tpos [46, 116, 49] (.list lp nl) .unspecified false] ∧ NodesMatch nl.toList exBody :=
  template_frame_spec ff0 pf0 [116, 49] ⟨116, [49], rfl, by decide, by decide, fun r w h => by
    have e : SoyVerif.Lemmas.LexPrint.runeAt [116, 49] = some (116, 1) := by decide
    rw [e] at h
    simp only [Option.some.injEq, Prod.mk.injEq] at h
    rw [← h.1]; decide⟩ exBody exBody_wf exBody_canon

open SoyVerif.Props.C17d (IdentOk nsSrc nsFileItems)

/-- `namespace_frame_spec` without table hypotheses -/
theorem namespace_frame_spec (ff : UInt64 → Bytes) (pf : Bytes → Option UInt64) (ns nm : Bytes) (hns : IdentOk ns)
    (hnm : NameOk nm) (b : CBody) (hw : WFL ff b) (hc : CanonB ff pf b) :
    lexAll (nsSrc ff ns nm b) false = .items (nsFileItems ff ns nm b) ∧
      ∃ npos tpos lp nl, parseSource pf (nsSrc ff ns nm b) =
          .ok [Node.nspace npos ns .unspecified, Node.template tpos (ns ++ 46 :: nm) (.list lp nl) .unspecified false] ∧
        NodesMatch nl.toList b :=
  SoyVerif.Props.C17d.namespace_frame_spec ff pf lexTableOK tableOK ns nm hns hnm b hw hc

/-- non-vacuity: `{namespace ex}⏎{template .t1}Hi {$a ?: -1|truncate:$b ? 1 : 2,-3|id}⏎␣␣{$a}!{/template}⏎` -/
example : lexAll (nsSrc ff0 [101, 120] [116, 49] exBody) false = .items (nsFileItems ff0 [101, 120] [116, 49] exBody) ∧
    ∃ npos tpos lp nl, parseSource pf0 (nsSrc ff0 [101, 120] [116, 49] exBody) =
        .ok [Node.nspace npos [101, 120] .unspecified,
          Node.template tpos [101, 120, 46, 116, 49] (.list lp nl) .unspecified false] ∧ NodesMatch nl.toList exBody :=
  namespace_frame_spec ff0 pf0 [101, 120] [116, 49] ⟨101, [120], rfl, by decide, by decide, by decide⟩
    ⟨116, [49], rfl, by decide, by decide, fun r w h => by
      have e : SoyVerif.Lemmas.LexPrint.runeAt [116, 49] = some (116, 1) := by decide
      rw [e] at h
      simp only [Option.some.injEq, Prod.mk.injEq] at h
      rw [← h.1]; decide⟩ exBody exBody_wf exBody_canon

end SoyVerif.Inst.C17c
