/-
  Instantiation of Props/C17c.lean (print commands at byte level) at the generated lexer tables, and an evaluated example.
-/
import SoyVerif.Props.C17c
import SoyVerif.Inst.C17b

namespace SoyVerif.Inst.C17c
open SoyVerif SoyVerif.Model SoyVerif.Model.Lex SoyVerif.Model.PrintTokens SoyVerif.Model.Printer
open SoyVerif.Props.C17c
open SoyVerif.Inst.C17b (lexTableOK)
open SoyVerif.Inst.C17 (ff0 i v)

/-- `lex_print_cmd` without table hypothesis -/
theorem lex_print_cmd (ff : UInt64 → Bytes) (arg : Expr) (dirs : List Directive) (h : CmdOk ff arg dirs) :
    ∃ items, lexAll (printPrint ff arg dirs) false = .items items ∧
      items.map Item.tk = ⟨.tLeftDelim, [123]⟩ :: (unsp (piecesBody ff arg dirs) ++ [⟨.tRightDelim, [125]⟩, ⟨.tEOF, []⟩]) :=
  SoyVerif.Props.C17c.lex_print_cmd ff lexTableOK arg dirs h

/-- `{$a ?: -1|truncate:$b ? 1 : 2,-3|id}` -/
def exArg : Expr := .bin .elvis 0 (v 97) (i (-1))
def exDirs : List Directive :=
  [⟨0, [116, 114, 117, 110, 99, 97, 116, 101], [.tern 0 (v 98) (i 1) (i 2), i (-3)]⟩, ⟨0, [105, 100], []⟩]

example : printPrint ff0 exArg exDirs =
    [123, 36, 97, 32, 63, 58, 32, 45, 49, 124, 116, 114, 117, 110, 99, 97, 116, 101, 58, 36, 98, 32, 63, 32, 49, 32, 58, 32, 50,
      44, 45, 51, 124, 105, 100, 125] := by decide

/-- the lexer model on that text (kernel-evaluated): 17 items, the last two RightDelim and EOF -/
example : (match lexAll (printPrint ff0 exArg exDirs) false with
    | .items its => some (its.map (·.typ))
    | _ => none) =
  some [.tLeftDelim, .tDollarIdent, .tElvis, .tInteger, .tPipe, .tIdent, .tColon, .tDollarIdent, .tTernIf, .tInteger, .tColon,
    .tInteger, .tComma, .tInteger, .tPipe, .tIdent, .tRightDelim, .tEOF] := by decide +kernel

end SoyVerif.Inst.C17c
