/-
  C17 / C01, byte level — obligations over the GENERATED lexer tables (Gen/LexTables.lean: the
  running code's `arithmeticItemsBySymbol`, `builtinIdents`, the probed set of tokens after which
  `-` is unary; Gen/Unicode.lean: the Go toolchain's `unicode.Letter` / `unicode.Nd` tables) and
  the theorems of Props/C17b.lean instantiated with them.  `lexTableOK` stops checking when /repo
  changes a table in a way that breaks the alignment with the printer's spellings.

  Non-vacuity: the lexer model EVALUATED by the kernel on printed texts (independent of the
  theorems), the theorems applied to the example trees of Inst/C17.lean, and the whole loop
  print → lex → parse → print evaluated.
-/
import SoyVerif.Props.C17b
import SoyVerif.Inst.C17

namespace SoyVerif.Inst.C17b
open SoyVerif SoyVerif.Model SoyVerif.Model.Lex SoyVerif.Model.Parser SoyVerif.Model.PrintTokens
open SoyVerif.Model.Printer SoyVerif.Lemmas.LexPrint SoyVerif.Props.C17b
open SoyVerif.Inst.C17 (tableOK ff0 pf0 ex1 ex2 ex3 ex4 ex5 ex6 ex7 ex8 ex9 exKey canon_examples canon_exKey i v)

/-! ### table obligations -/

theorem inRanges_list (t : Array (Nat × Nat × Nat)) (r : Nat) :
    Lex.inRanges t r = t.toList.any fun e => e.1 ≤ r && r ≤ e.2.1 && (r - e.1) % e.2.2 == 0 := by
  unfold Lex.inRanges; rw [Array.any_toList]

/-- `unicode.IsLetter` on ASCII is `[A-Za-z]` (over the generated range table) -/
theorem letter_ascii : ∀ n : Fin 128,
    isLetterU (n.val : Int) = decide ((65 ≤ n.val ∧ n.val ≤ 90) ∨ (97 ≤ n.val ∧ n.val ≤ 122)) := by
  intro n
  unfold isLetterU
  rw [inRanges_list]
  revert n
  decide +kernel

/-- `unicode.IsDigit` on ASCII is `[0-9]` -/
theorem digit_ascii : ∀ n : Fin 128, isDigitU (n.val : Int) = decide (48 ≤ n.val ∧ n.val ≤ 57) := by
  intro n
  unfold isDigitU
  rw [inRanges_list]
  revert n
  decide +kernel

/-- the generated lexer tables have the properties the proofs use -/
theorem lexTableOK : LexTableOK where
  letter := letter_ascii
  digit := digit_ascii
  sym1 := by decide
  sym2 := by decide
  kw := by decide
  keys := by decide
  unaryBefore := by decide
  unaryAfter := by decide

/-- every operator spelling of the printer is the key of its token in `arithmeticItemsBySymbol`
    (`"+"` ↦ `itemAdd`, …), and so are the punctuation tokens the lexer looks up there -/
theorem symbols_cover :
    (∀ op ∈ BinOp.all, Gen.symbols.lookup op.sym = some (tokOf op)) ∧
    Gen.symbols.lookup [43] = some .tAdd ∧ Gen.symbols.lookup [40] = some .tLeftParen ∧
    Gen.symbols.lookup [41] = some .tRightParen ∧ Gen.symbols.lookup [58] = some .tColon ∧
    Gen.symbols.lookup [63] = some .tTernIf ∧ Gen.symbols.lookup [110, 111, 116] = some .tNot := by decide

/-- prefix conflicts among the symbol spellings: a key is a proper prefix of another key only for
    `<`/`<=`, `>`/`>=`, `?`/`?:` — exactly the tokens after which the printer always puts a space
    (`TokOk.op`, `TokOk.ternif`); `!` and `=` alone are no keys (`!=`, `==` are read greedily) -/
theorem symbols_prefixes :
    ((Gen.symbols.map (·.1)).flatMap fun k1 => ((Gen.symbols.map (·.1)).filter fun k2 => k1.isPrefixOf k2 && k1 != k2).map
      fun k2 => (k1, k2)) = [([60], [60, 61]), ([62], [62, 61]), ([63], [63, 58])] ∧
    Gen.symbols.lookup [33] = none ∧ Gen.symbols.lookup [61] = none := by decide

/-- the two dumps of the unary-minus predecessor set (lexer tables / parser tables) agree -/
theorem unary_sets_agree : Gen.unaryMinusAfter = Gen.ParseTables.unaryMinusAfter := by decide

/-- EXACTLY which names `NamesOk` excludes as function names / first segments of globals: the keys
    of `builtinIdents` that are identifiers (the lexer reads them as the keyword, not as an Ident) -/
theorem keyword_names :
    (Gen.builtinIdents.map (·.1)).filter identOk =
      [[97, 108, 105, 97, 115], [97, 110, 100], [99, 97, 108, 108], [99, 97, 115, 101], [99, 115, 115],
       [100, 101, 98, 117, 103, 103, 101, 114], [100, 101, 102, 97, 117, 108, 116], [101, 108, 115, 101],
       [101, 108, 115, 101, 105, 102], [102, 97, 108, 115, 101], [102, 111, 114], [102, 111, 114, 101, 97, 99, 104],
       [105, 102], [105, 102, 101, 109, 112, 116, 121], [108, 98], [108, 101, 116], [108, 105, 116, 101, 114, 97, 108],
       [108, 111, 103], [109, 115, 103], [110, 97, 109, 101, 115, 112, 97, 99, 101], [110, 105, 108], [110, 111, 116],
       [110, 117, 108, 108], [111, 114], [112, 97, 114, 97, 109], [112, 108, 117, 114, 97, 108], [112, 114, 105, 110, 116],
       [114, 98], [115, 112], [115, 119, 105, 116, 99, 104], [116, 101, 109, 112, 108, 97, 116, 101], [116, 114, 117, 101]] := by
  decide
  -- alias and call case css debugger default else elseif false for foreach if ifempty lb let literal log msg
  -- namespace nil not null or param plural print rb sp switch template true

/-! ### the theorems without table hypotheses -/

section
variable (ff : UInt64 → Bytes) (pf : Bytes → Option UInt64)

theorem lex_print (e : Expr) (hN : NamesOk ff e = true) :
    ∃ items, lexAll (printExpr ff e) true = .items items ∧ items.map Item.tk = toks ff e ++ [errTk] :=
  Props.C17b.lex_print ff lexTableOK e hN

theorem lex_print_items (e : Expr) (hN : NamesOk ff e = true) :
    lexAll (printExpr ff e) true = .items (emitAll 0 (pieces ff e)) :=
  Props.C17b.lex_print_items ff lexTableOK e hN

theorem print_parse_roundtrip_bytes (e : Expr) (hC : Canon ff pf e) (hN : NamesOk ff e = true) :
    ∃ items e', lexAll (printExpr ff e) true = .items items ∧ parseExprEntry pf items = .ok e' ∧
      erase e' = erase e :=
  Props.C17b.print_parse_roundtrip_bytes ff pf lexTableOK tableOK e hC hN

theorem parse_complete_bytes (e : Expr) (ps : List Piece) (ha : Adj ps [])
    (hc : SoyVerif.Lemmas.ParserAdj.chainOK .tInvalid (SoyVerif.Lemmas.ParserAdj.typs (unsp ps)) = true)
    (hR : SoyVerif.Props.C17.RendersTop pf e (unsp ps)) :
    ∃ items e', lexAll (spell ps) true = .items items ∧ parseExprEntry pf items = .ok e' ∧ erase e' = erase e :=
  Props.C17b.parse_complete_bytes pf lexTableOK tableOK e ps ha hc hR

theorem print_injective_bytes (a b : Expr) (ha : Canon ff pf a) (hb : Canon ff pf b)
    (hna : NamesOk ff a = true) (hnb : NamesOk ff b = true) (h : printExpr ff a = printExpr ff b) :
    erase a = erase b :=
  Props.C17b.print_injective_bytes ff pf lexTableOK tableOK a b ha hb hna hnb h

theorem lex_quoted_string (v : Bytes) :
    lexAll (quoteString v) true =
      .items [⟨.tString, (quoteString v).length, quoteString v⟩, errItem] :=
  Props.C17b.lex_quoted_string lexTableOK v

theorem lex_int (v : Int) :
    lexAll (fmtInt v) true = .items [⟨.tInteger, (fmtInt v).length, fmtInt v⟩, errItem] :=
  Props.C17b.lex_int lexTableOK v

theorem lex_float (val : Bytes) (h : floatSpelling val = true) :
    lexAll val true = .items [⟨.tFloat, val.length, val⟩, errItem] :=
  Props.C17b.lex_float lexTableOK val h

end

/-- floats with Go's formatter (`F64.format`, the soft-float model of FormatFloat 'g'): no hypothesis on the
    spelling — finiteness is enough (Lemmas/F64Shape.lean) -/
theorem lex_float_finite (bits : UInt64) (hn : (F64.mk bits).isNaN = false) (hi : (F64.mk bits).isInf = false) :
    lexAll (fmtFloatLit ffGo bits) true =
      .items [⟨.tFloat, (fmtFloatLit ffGo bits).length, fmtFloatLit ffGo bits⟩, errItem] :=
  Props.C17b.lex_float_finite lexTableOK bits hn hi

theorem lex_print_go (e : Expr) (hF : floatsFinite e = true) (hN : NamesOk ff1 e = true) :
    ∃ items, lexAll (printExpr ffGo e) true = .items items ∧ items.map Item.tk = toks ffGo e ++ [errTk] :=
  Props.C17b.lex_print_go lexTableOK e hF hN

/-- `1e+21 * 100.0`: printed with the soft-float formatter and lexed back -/
def exFloat : Expr := .bin .mul 0 (.float 0 0x444b1ae4d6e2ef50) (.float 0 0x4059000000000000)
example : printExpr ffGo exFloat = [49, 101, 43, 50, 49, 32, 42, 32, 49, 48, 48, 46, 48] := by decide +kernel
example : ∃ items, lexAll (printExpr ffGo exFloat) true = .items items ∧ items.map Item.tk = toks ffGo exFloat ++ [errTk] :=
  lex_print_go exFloat (by decide +kernel) (by decide)

/-! ### `NamesOk` is decidable; what it accepts and rejects -/

instance (ff : UInt64 → Bytes) (e : Expr) : Decidable (NamesOk ff e = true) := inferInstance

theorem names_examples :
    NamesOk ff0 ex1 = true ∧ NamesOk ff0 ex2 = true ∧ NamesOk ff0 ex3 = true ∧ NamesOk ff0 ex4 = true ∧
    NamesOk ff0 ex5 = true ∧ NamesOk ff0 ex6 = true ∧ NamesOk ff0 ex7 = true ∧ NamesOk ff0 ex8 = true ∧
    NamesOk ff0 ex9 = true ∧ NamesOk ff0 exKey = true := by decide

/-- accepted: identifiers with letters and digits of any script — `$é`, `$a.ñ1`, `f٣(x.é)` (U+0663 is a digit) -/
example : NamesOk ff0 (.dataRef 0 [195, 169] .nil) = true := by decide +kernel
example : NamesOk ff0 (.dataRef 0 [97] (.cons (.key 0 false [195, 177, 49]) .nil)) = true := by decide +kernel
example : NamesOk ff0 (.func 0 [102, 217, 163] (.cons (.global 0 [120, 46, 195, 169]) .nil)) = true := by decide +kernel
example : ∃ items, lexAll [36, 195, 169] true = .items items ∧ items.map Item.tk = [⟨.tDollarIdent, [36, 195, 169]⟩, errTk] :=
  lex_print ff0 (.dataRef 0 [195, 169] .nil) (by decide +kernel)

/-- rejected since /repo 8984077: the dangling dot `$a. + 1` (a name after `.` begins with a letter or `_`; before,
    parse.Expr returned the access with the EMPTY key).  The lexer reports it at the `.` (class 7). -/
def exDot : Expr := .bin .add 0 (.dataRef 0 [97] (.cons (.key 0 false []) .nil)) (.int 0 1)
example : printExpr ff0 exDot = [36, 97, 46, 32, 43, 32, 49] ∧ NamesOk ff0 exDot = false := by decide

/-- rejected: a global named `and`, a function named `print`, a key `$9x`, a key `.1a` (an index token), the index `.-3`, a global
    with an empty segment `.a`, `a..b`, the string spellings `'a'b'` and `'a\'` (both of which `unquoteString`
    accepts), the float spelling `NaN` -/
example : NamesOk ff0 (.global 0 [97, 110, 100]) = false := by decide
example : NamesOk ff0 (.func 0 [112, 114, 105, 110, 116] .nil) = false := by decide
example : NamesOk ff0 (.dataRef 0 [57, 120] .nil) = false := by decide
example : NamesOk ff0 (.dataRef 0 [97] (.cons (.key 0 false [49, 97]) .nil)) = false := by decide
example : NamesOk ff0 (.dataRef 0 [97] (.cons (.index 0 false (-3)) .nil)) = false := by decide
example : NamesOk ff0 (.global 0 [46, 97]) = false ∧ NamesOk ff0 (.global 0 [97, 46, 46, 98]) = false := by decide
example : NamesOk ff0 (.str 0 [39, 97, 39, 98, 39] [97, 39, 98]) = false ∧
    Quote.unquoteString [39, 97, 39, 98, 39] = some [97, 39, 98] := by decide
example : NamesOk ff0 (.str 0 [39, 97, 92, 39] [97]) = false := by decide
example : NamesOk (fun _ => [78, 97, 78]) (.float 0 0) = false := by decide
/-- accepted float spellings: `1.5`, `-0.25`, `1e+06`, `2.5e-07`, `100.0`; rejected: `1.`, `.5`, `01e5`, `+Inf` -/
example : floatSpelling [49, 46, 53] = true ∧ floatSpelling [45, 48, 46, 50, 53] = true ∧
    floatSpelling [49, 101, 43, 48, 54] = true ∧ floatSpelling [50, 46, 53, 101, 45, 48, 55] = true ∧
    floatSpelling [49, 48, 48, 46, 48] = true ∧ floatSpelling [49, 46] = false ∧ floatSpelling [46, 53] = false ∧
    floatSpelling [48, 49, 101, 53] = false ∧ floatSpelling [43, 73, 110, 102] = false ∧ floatSpelling [49] = false := by decide

/-- why the keyword condition is needed: the text `sp` lexes as the command `{sp}`, not as an identifier
    (each kernel evaluation of the lexer model costs ≈ 20 s: a rune that is NOT a letter is looked up in
    the whole generated `unicode.Letter` table — hence only a handful of evaluated examples) -/
example : lexAll [115, 112] true = .items [⟨.tSpace, 2, [115, 112]⟩, ⟨.tError, 0, [clsTag]⟩] := by decide +kernel

/-! ### non-vacuity: the lexer model evaluated on printed texts -/

/-- `(1 + 2) * 3` -/
example : lexAll [40, 49, 32, 43, 32, 50, 41, 32, 42, 32, 51] true =
    .items [⟨.tLeftParen, 1, [40]⟩, ⟨.tInteger, 2, [49]⟩, ⟨.tAdd, 4, [43]⟩, ⟨.tInteger, 6, [50]⟩, ⟨.tRightParen, 7, [41]⟩,
      ⟨.tMul, 9, [42]⟩, ⟨.tInteger, 11, [51]⟩, ⟨.tError, 0, [clsTag]⟩] := by decide +kernel

/-- `-(5)`: a Negate token, not the sign of a number -/
example : lexAll [45, 40, 53, 41] true =
    .items [⟨.tNegate, 1, [45]⟩, ⟨.tLeftParen, 2, [40]⟩, ⟨.tInteger, 3, [53]⟩, ⟨.tRightParen, 4, [41]⟩,
      ⟨.tError, 0, [clsTag]⟩] := by decide +kernel

/-- `$a ? [1] : $b.c` -/
example : lexAll [36, 97, 32, 63, 32, 91, 49, 93, 32, 58, 32, 36, 98, 46, 99] true =
    .items [⟨.tDollarIdent, 2, [36, 97]⟩, ⟨.tTernIf, 4, [63]⟩, ⟨.tLeftBracket, 6, [91]⟩, ⟨.tInteger, 7, [49]⟩,
      ⟨.tRightBracket, 8, [93]⟩, ⟨.tColon, 10, [58]⟩, ⟨.tDollarIdent, 13, [36, 98]⟩, ⟨.tDotIdent, 15, [46, 99]⟩,
      ⟨.tError, 0, [clsTag]⟩] := by decide +kernel

/-- `not ($x and $y)` -/
example : lexAll [110, 111, 116, 32, 40, 36, 120, 32, 97, 110, 100, 32, 36, 121, 41] true =
    .items [⟨.tNot, 3, [110, 111, 116]⟩, ⟨.tLeftParen, 5, [40]⟩, ⟨.tDollarIdent, 7, [36, 120]⟩, ⟨.tAnd, 11, [97, 110, 100]⟩,
      ⟨.tDollarIdent, 14, [36, 121]⟩, ⟨.tRightParen, 15, [41]⟩, ⟨.tError, 0, [clsTag]⟩] := by decide +kernel

/-- `1 - -2.5e-07` (binary minus, then the sign of a float) and `$a ?: 'x\'y'`: by the theorem
    `lexAll_pieces` on the piece lists (evaluating `emitAll`, not the lexer) -/
example : lexAll [49, 32, 45, 32, 45, 50, 46, 53, 101, 45, 48, 55] true =
    .items [⟨.tInteger, 1, [49]⟩, ⟨.tSub, 3, [45]⟩, ⟨.tFloat, 12, [45, 50, 46, 53, 101, 45, 48, 55]⟩,
      errItem] := by
  have h := lexAll_pieces lexTableOK
    [.tok ⟨.tInteger, [49]⟩, .sp, .tok (tOp .sub), .sp, .tok ⟨.tFloat, [45, 50, 46, 53, 101, 45, 48, 55]⟩]
    ⟨tok_int 1 (closer_numEnd (closer_sp _)), tok_op lexTableOK .sub _,
      tok_float (by decide) (closer_numEnd closer_nil), trivial⟩ (by decide)
  exact h
example : lexAll [36, 97, 32, 63, 58, 32, 39, 120, 92, 39, 121, 39] true =
    .items [⟨.tDollarIdent, 2, [36, 97]⟩, ⟨.tElvis, 5, [63, 58]⟩, ⟨.tString, 12, [39, 120, 92, 39, 121, 39]⟩,
      errItem] := by
  have h := lexAll_pieces lexTableOK
    [.tok ⟨.tDollarIdent, [36, 97]⟩, .sp, .tok (tOp .elvis), .sp, .tok (tString [39, 120, 92, 39, 121, 39])]
    ⟨tok_dollar (k := [97]) (by decide) (closer_wordEnd (closer_sp _)), tok_op lexTableOK .elvis _,
      .str _ _ (by decide), trivial⟩ (by decide)
  exact h

/-! ### non-vacuity: the theorems applied -/

/-- the items of `(1 + 2) * 3` as the theorem gives them (`emitAll`), evaluated -/
example : lexAll (printExpr ff0 ex1) true =
    .items [⟨.tLeftParen, 1, [40]⟩, ⟨.tInteger, 2, [49]⟩, ⟨.tAdd, 4, [43]⟩, ⟨.tInteger, 6, [50]⟩, ⟨.tRightParen, 7, [41]⟩,
      ⟨.tMul, 9, [42]⟩, ⟨.tInteger, 11, [51]⟩, errItem] := by
  rw [lex_print_items ff0 ex1 names_examples.1]; decide

example : ∃ items e', lexAll (printExpr ff0 ex4) true = .items items ∧ parseExprEntry pf0 items = .ok e' ∧
    erase e' = erase ex4 :=
  print_parse_roundtrip_bytes ff0 pf0 ex4 canon_examples.2.2.2.1 names_examples.2.2.2.1
example : ∃ items e', lexAll (printExpr ff0 ex8) true = .items items ∧ parseExprEntry pf0 items = .ok e' ∧
    erase e' = erase ex8 :=
  print_parse_roundtrip_bytes ff0 pf0 ex8 canon_examples.2.2.2.2.2.2.2.1 names_examples.2.2.2.2.2.2.2.1
example : ∃ items e', lexAll (printExpr ff0 ex9) true = .items items ∧ parseExprEntry pf0 items = .ok e' ∧
    erase e' = erase ex9 :=
  print_parse_roundtrip_bytes ff0 pf0 ex9 canon_examples.2.2.2.2.2.2.2.2 names_examples.2.2.2.2.2.2.2.2.1
/-- `['\xff': 1]`: a key that is one invalid UTF-8 byte goes through the string lexer -/
example : ∃ items e', lexAll (printExpr ff0 exKey) true = .items items ∧ parseExprEntry pf0 items = .ok e' ∧
    erase e' = erase exKey :=
  print_parse_roundtrip_bytes ff0 pf0 exKey canon_exKey names_examples.2.2.2.2.2.2.2.2.2

/-- redundant parentheses and other spacing, from bytes: `((1))+ (2 * (3))` is lexed and parsed to `1 + 2 * 3`
    (`+` needs no space after it; `*` is printed with one) -/
def ps10 : List Piece :=
  [.tok tLP, .tok tLP, .tok ⟨.tInteger, [49]⟩, .tok tRP, .tok tRP, .tok ⟨.tAdd, [43]⟩, .sp, .tok tLP, .tok ⟨.tInteger, [50]⟩, .sp,
   .tok (tOp .mul), .sp, .tok tLP, .tok ⟨.tInteger, [51]⟩, .tok tRP, .tok tRP]

example : spell ps10 = [40, 40, 49, 41, 41, 43, 32, 40, 50, 32, 42, 32, 40, 51, 41, 41] ∧ unsp ps10 = SoyVerif.Inst.C17.ts10 := by decide

theorem adj_ps10 : Adj ps10 [] :=
  ⟨.lp _, .lp _, tok_int 1 (closer_numEnd (closer_rp _)), .rp _, .rp _, .op .add _ (by decide), .lp _,
    tok_int 2 (closer_numEnd (closer_sp _)), tok_op lexTableOK .mul _, .lp _, tok_int 3 (closer_numEnd (closer_rp _)),
    .rp _, .rp _, trivial⟩

example : ∃ items e', lexAll [40, 40, 49, 41, 41, 43, 32, 40, 50, 32, 42, 32, 40, 51, 41, 41] true = .items items ∧
    parseExprEntry pf0 items = .ok e' ∧ erase e' = erase SoyVerif.Inst.C17.ex10 :=
  parse_complete_bytes pf0 SoyVerif.Inst.C17.ex10 ps10 adj_ps10 (by decide) SoyVerif.Inst.C17.renders_ex10

/-- the whole loop evaluated by the kernel: print, lex the bytes, parse the items, erase, print -/
def roundTripBytes (e : Expr) : Option Bytes :=
  match lexAll (printExpr ff0 e) true with
  | .items its =>
    match parseExprEntry pf0 its with
    | .ok e' => some (printExpr ff0 (erase e'))
    | .error _ => none
  | _ => none

example : roundTripBytes ex9 = some (printExpr ff0 ex9) := by decide +kernel
example : roundTripBytes exKey = some (printExpr ff0 exKey) := by decide +kernel

end SoyVerif.Inst.C17b
