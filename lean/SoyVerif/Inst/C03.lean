/-
  C03 — obligations over the GENERATED directive table (Gen/DirectiveTable.lean, dumped from the
  live soyhtml.PrintDirectives map on every run).  They fail to check when /repo changes a
  CancelAutoescape flag, an arity, or adds/removes a directive that cancels autoescaping.
-/
import SoyVerif.Props.C03
import SoyVerif.Gen.DirectiveTable

namespace SoyVerif.Inst.C03
open SoyVerif SoyVerif.Model SoyVerif.Model.Directives SoyVerif.Lemmas.EscapeDirectives

def nTruncate : Bytes := [116, 114, 117, 110, 99, 97, 116, 101]
def nInsertWordBreaks : Bytes := [105, 110, 115, 101, 114, 116, 87, 111, 114, 100, 66, 114, 101, 97, 107, 115]
def nChangeNewlineToBr : Bytes := [99, 104, 97, 110, 103, 101, 78, 101, 119, 108, 105, 110, 101, 84, 111, 66, 114]
def nId : Bytes := [105, 100]
def nNoAutoescape : Bytes := [110, 111, 65, 117, 116, 111, 101, 115, 99, 97, 112, 101]
def nEscapeHtml : Bytes := [101, 115, 99, 97, 112, 101, 72, 116, 109, 108]
def nEscapeUri : Bytes := [101, 115, 99, 97, 112, 101, 85, 114, 105]
def nEscapeJsString : Bytes := [101, 115, 99, 97, 112, 101, 74, 115, 83, 116, 114, 105, 110, 103]
def nJson : Bytes := [106, 115, 111, 110]

/-- exactly the documented set of directives cancels autoescaping (the table is sorted by name) -/
theorem cancel_table :
    (Gen.directiveTable.filter (·.cancel)).map (·.name) =
      [nChangeNewlineToBr, nEscapeHtml, nEscapeJsString, nEscapeUri, nId, nInsertWordBreaks, nJson, nNoAutoescape] := by
  decide

/-- truncate exists, takes one or two arguments and does NOT cancel autoescaping -/
theorem truncate_entry :
    (lookup Gen.directiveTable nTruncate).map (fun e => (e.arities, e.cancel)) = some ([1, 2], false) := by
  decide

/-- the cancelling directives that emit HTML are implemented by the functions the theorems of
    C03/C16 are about; names are unique in the table -/
theorem html_directives_impl :
    (lookup Gen.directiveTable nEscapeHtml).map (·.impl) = some sDirectiveEscapeHtml ∧
    (lookup Gen.directiveTable nChangeNewlineToBr).map (·.impl) = some sDirectiveChangeNewlineToBr ∧
    (lookup Gen.directiveTable nInsertWordBreaks).map (·.impl) = some sDirectiveInsertWordBreaks ∧
    (lookup Gen.directiveTable nTruncate).map (·.impl) = some sDirectiveTruncate ∧
    (Gen.directiveTable.map (·.name)).Nodup := by
  decide

/-- no directive is applied behind the template author's back -/
theorem no_obligatory_directives : Gen.obligatoryDirectives = [] := by decide

/-- instance of `print_escapes` for the live table: any chain of `truncate` calls is escaped -/
theorem print_truncate_escapes (mode : Mode) (args : List Arg) (v out : Bytes) (hmode : mode ≠ .off)
    (h : printBytes mode [(nTruncate, args)] v = .ok out) :
    ∃ r, chainValue Gen.directiveTable [(nTruncate, args)] v = .ok r ∧ out = htmlEscape r ∧
      Props.C03.SafeHtmlEncoding out r := by
  have hnc : noCancel Gen.directiveTable
      ([(nTruncate, args)] ++ Gen.obligatoryDirectives.map fun n => (n, [])) = true := by
    have : lookup Gen.directiveTable nTruncate = some ⟨nTruncate, [1, 2], false, sDirectiveTruncate⟩ := by decide
    simp [no_obligatory_directives, noCancel, this]
  have := Props.C03.print_escapes Gen.directiveTable Gen.obligatoryDirectives mode [(nTruncate, args)] v out hmode hnc h
  simpa [no_obligatory_directives] using this

example : printBytes .on [(nTruncate, [.int 2, .bool false])] [60, 97, 62] = .ok [38, 108, 116, 59, 97] := by decide
example : printBytes .contextual [] [60] = .ok [38, 108, 116, 59] := by decide
example : printBytes .off [] [60] = .ok [60] := by decide
example : printBytes .on [(nId, [])] [60] = .ok [60] := by decide

end SoyVerif.Inst.C03
