/-
  C17 / C01 — obligations over the GENERATED parser tables (Gen/ParseTables.lean, dumped from
  the running code of /repo on every run) and the theorems of Props/C17.lean instantiated with
  them.  `tableOK` stops checking when /repo changes the precedence table, `isBinaryOp` or
  `isUnaryOp` in a way that breaks the alignment with the printer's levels.

  Non-vacuity: the round trip instantiated on three-level trees of every operator family, with the
  parse evaluated by the kernel.
-/
import SoyVerif.Props.C17

namespace SoyVerif.Inst.C17
open SoyVerif SoyVerif.Model SoyVerif.Model.Parser SoyVerif.Model.PrintTokens SoyVerif.Model.Printer
open SoyVerif.Lemmas.ParserBasic SoyVerif.Props.C17

/-- the generated tables have the properties the proofs use -/
theorem tableOK : TableOK where
  binop := by decide
  unop := by decide
  prec := by decide
  precNot := by decide
  precNeg := by decide

/-- concrete values of the generated precedence table (documentation of the alignment) -/
theorem precedence_values :
    precedence .tElvis = 0 ∧ precedence .tOr = 1 ∧ precedence .tAnd = 2 ∧ precedence .tEq = 3 ∧ precedence .tLt = 4 ∧
    precedence .tAdd = 5 ∧ precedence .tSub = 5 ∧ precedence .tMul = 6 ∧ precedence .tNot = 7 ∧
    precedence .tNegate = 7 := by decide

/-- lexer-facing half (with `Props.C17.minus_context`): after every token that can precede an operand in
    printed tokens the lexer reads `-` as unary minus / the sign of a number (`lexNegative`, probed on
    the running code), and after every token an operand can end with it reads a binary minus -/
theorem unary_minus_after_covers :
    (∀ t ∈ SoyVerif.Lemmas.ParserAdj.beforeOperand, t ∈ Gen.ParseTables.unaryMinusAfter) ∧
    (∀ t ∈ SoyVerif.Lemmas.ParserAdj.afterOperand, t ∉ Gen.ParseTables.unaryMinusAfter) := by decide

section
variable (ff : UInt64 → Bytes) (pf : Bytes → Option UInt64)

theorem parse_complete_redundant_parens (e : Expr) (ts : List Tk) (items : List Item)
    (hR : RendersTop pf e ts) (hit : Carries items (ts ++ [tEOF])) :
    ∃ e', parseExprEntry pf items = .ok e' ∧ erase e' = erase e :=
  Props.C17.parse_complete_redundant_parens pf tableOK e ts items hR hit

theorem print_parse_roundtrip_tokens (e : Expr) (hC : Canon ff pf e) (items : List Item)
    (hit : Carries items (toks ff e ++ [tEOF])) :
    ∃ e', parseExprEntry pf items = .ok e' ∧ erase e' = erase e :=
  Props.C17.print_parse_roundtrip_tokens ff pf tableOK e hC items hit

theorem print_injective_tokens (a b : Expr) (ha : Canon ff pf a) (hb : Canon ff pf b)
    (h : toks ff a = toks ff b) : erase a = erase b :=
  Props.C17.print_injective_tokens ff pf tableOK a b ha hb h

theorem renders_unique (a b : Expr) (ts : List Tk) (ha : RendersTop pf a ts) (hb : RendersTop pf b ts) :
    erase a = erase b :=
  Props.C17.renders_unique pf tableOK a b ts ha hb
end

/-! ### non-vacuity -/

def ff0 : UInt64 → Bytes := fun _ => [49, 46, 53]          -- "1.5"
def pf0 : Bytes → Option UInt64 := fun _ => none

def i (n : Int) : Expr := .int 0 n
def v (c : UInt8) : Expr := .dataRef 0 [c] .nil

/-- `(1 + 2) * 3` -/
def ex1 : Expr := .bin .mul 0 (.bin .add 0 (i 1) (i 2)) (i 3)
/-- `1 - (2 - 3)` -/
def ex2 : Expr := .bin .sub 0 (i 1) (.bin .sub 0 (i 2) (i 3))
/-- `-(5)` -/
def ex3 : Expr := .neg 0 (i 5)
/-- `($a ? $b : $c) ?: $d` -/
def ex4 : Expr := .bin .elvis 0 (.tern 0 (v 97) (v 98) (v 99)) (v 100)
/-- `$a ? ($b ? $c : $d) : $e` -/
def ex5 : Expr := .tern 0 (v 97) (.tern 0 (v 98) (v 99) (v 100)) (v 101)
/-- `not ($x and $y)` -/
def ex6 : Expr := .not 0 (.bin .and 0 (v 120) (v 121))
/-- `$a ? $b : $c ? $d : $e` (right-nested: no parentheses) -/
def ex7 : Expr := .tern 0 (v 97) (v 98) (.tern 0 (v 99) (v 100) (v 101))
/-- `f($a.b?.c[0], [1, 2], ['k': -3]).d` is not an expression of the language; `$a.b?.c.0?[$i + 1]` is -/
def ex8 : Expr := .dataRef 0 [97] (.cons (.key 0 false [98]) (.cons (.key 0 true [99]) (.cons (.index 0 false 0)
  (.cons (.expr 0 true (.bin .add 0 (v 105) (i 1))) .nil))))
/-- `f([1, 2], ['a': -3, 'b': x.y], $a or $b and $c)` -/
def ex9 : Expr := .func 0 [102] (.cons (.list 0 (.cons (i 1) (.cons (i 2) .nil)))
  (.cons (.map 0 (.cons [97] (i (-3)) (.cons [98] (.global 0 [120, 46, 121]) .nil)))
  (.cons (.bin .or 0 (v 97) (.bin .and 0 (v 98) (v 99))) .nil)))

/-- the printed text (model printer) of the examples -/
example : printExpr ff0 ex1 = [40, 49, 32, 43, 32, 50, 41, 32, 42, 32, 51] := by decide   -- (1 + 2) * 3
example : printExpr ff0 ex2 = [49, 32, 45, 32, 40, 50, 32, 45, 32, 51, 41] := by decide   -- 1 - (2 - 3)
example : printExpr ff0 ex3 = [45, 40, 53, 41] := by decide   -- -(5)
example : printExpr ff0 ex4 = [40, 36, 97, 32, 63, 32, 36, 98, 32, 58, 32, 36, 99, 41, 32, 63, 58, 32, 36, 100] := by decide   -- ($a ? $b : $c) ?: $d
example : printExpr ff0 ex5 = [36, 97, 32, 63, 32, 40, 36, 98, 32, 63, 32, 36, 99, 32, 58, 32, 36, 100, 41, 32, 58, 32, 36, 101] := by decide   -- $a ? ($b ? $c : $d) : $e
example : printExpr ff0 ex6 = [110, 111, 116, 32, 40, 36, 120, 32, 97, 110, 100, 32, 36, 121, 41] := by decide   -- not ($x and $y)
example : printExpr ff0 ex7 = [36, 97, 32, 63, 32, 36, 98, 32, 58, 32, 36, 99, 32, 63, 32, 36, 100, 32, 58, 32, 36, 101] := by decide   -- $a ? $b : $c ? $d : $e
example : printExpr ff0 ex8 = [36, 97, 46, 98, 63, 46, 99, 46, 48, 63, 91, 36, 105, 32, 43, 32, 49, 93] := by decide   -- $a.b?.c.0?[$i + 1]
example : printExpr ff0 ex9 = [102, 40, 91, 49, 44, 32, 50, 93, 44, 91, 39, 97, 39, 58, 32, 45, 51, 44, 32, 39, 98, 39, 58, 32, 120, 46, 121, 93, 44, 36, 97, 32, 111, 114, 32, 36, 98, 32, 97, 110, 100, 32, 36, 99, 41] := by decide   -- f([1, 2],['a': -3, 'b': x.y],$a or $b and $c)


/-- the trees satisfy `Canon` (the hypotheses of the theorems are satisfiable) … -/
theorem canon_examples :
    Canon ff0 pf0 ex1 ∧ Canon ff0 pf0 ex2 ∧ Canon ff0 pf0 ex3 ∧ Canon ff0 pf0 ex4 ∧ Canon ff0 pf0 ex5 ∧
    Canon ff0 pf0 ex6 ∧ Canon ff0 pf0 ex7 ∧ Canon ff0 pf0 ex8 ∧ Canon ff0 pf0 ex9 := by
  simp only [ex1, ex2, ex3, ex4, ex5, ex6, ex7, ex8, ex9, i, v, Canon, CanonL, CanonM, CanonAL, CanonA, SortedKeys, keysOf]
  decide

/-- … and the theorem applies to them (any positions: here consecutive from 0 resp. 100) -/
example : ∃ e', parseExprEntry pf0 (withPos 0 (toks ff0 ex1 ++ [tEOF])) = .ok e' ∧ erase e' = erase ex1 :=
  print_parse_roundtrip_tokens ff0 pf0 ex1 canon_examples.1 _ (withPos_carries 0 _)
example : ∃ e', parseExprEntry pf0 (withPos 0 (toks ff0 ex2 ++ [tEOF])) = .ok e' ∧ erase e' = erase ex2 :=
  print_parse_roundtrip_tokens ff0 pf0 ex2 canon_examples.2.1 _ (withPos_carries 0 _)
example : ∃ e', parseExprEntry pf0 (withPos 0 (toks ff0 ex3 ++ [tEOF])) = .ok e' ∧ erase e' = erase ex3 :=
  print_parse_roundtrip_tokens ff0 pf0 ex3 canon_examples.2.2.1 _ (withPos_carries 0 _)
example : ∃ e', parseExprEntry pf0 (withPos 0 (toks ff0 ex4 ++ [tEOF])) = .ok e' ∧ erase e' = erase ex4 :=
  print_parse_roundtrip_tokens ff0 pf0 ex4 canon_examples.2.2.2.1 _ (withPos_carries 0 _)
example : ∃ e', parseExprEntry pf0 (withPos 0 (toks ff0 ex5 ++ [tEOF])) = .ok e' ∧ erase e' = erase ex5 :=
  print_parse_roundtrip_tokens ff0 pf0 ex5 canon_examples.2.2.2.2.1 _ (withPos_carries 0 _)
example : ∃ e', parseExprEntry pf0 (withPos 0 (toks ff0 ex6 ++ [tEOF])) = .ok e' ∧ erase e' = erase ex6 :=
  print_parse_roundtrip_tokens ff0 pf0 ex6 canon_examples.2.2.2.2.2.1 _ (withPos_carries 0 _)
example : ∃ e', parseExprEntry pf0 (withPos 100 (toks ff0 ex9 ++ [tEOF])) = .ok e' ∧ erase e' = erase ex9 :=
  print_parse_roundtrip_tokens ff0 pf0 ex9 canon_examples.2.2.2.2.2.2.2.2 _ (withPos_carries 100 _)

/-- the printed tokens of `(1 + 2) * 3` -/
example : toks ff0 ex1 = [tLP, ⟨.tInteger, [49]⟩, tOp .add, ⟨.tInteger, [50]⟩, tRP, tOp .mul, ⟨.tInteger, [51]⟩] := by decide

/-- the round trip, evaluated: parse the positioned printed tokens, erase, print again -/
def roundTrip (e : Expr) : Option Bytes :=
  match parseExprEntry pf0 (withPos 0 (toks ff0 e ++ [tEOF])) with
  | .ok e' => some (printExpr ff0 (erase e'))
  | .error _ => none

example : roundTrip ex1 = some (printExpr ff0 ex1) := by decide +kernel
example : roundTrip ex2 = some (printExpr ff0 ex2) := by decide +kernel
example : roundTrip ex3 = some (printExpr ff0 ex3) := by decide +kernel
example : roundTrip ex4 = some (printExpr ff0 ex4) := by decide +kernel
example : roundTrip ex5 = some (printExpr ff0 ex5) := by decide +kernel
example : roundTrip ex6 = some (printExpr ff0 ex6) := by decide +kernel
example : roundTrip ex7 = some (printExpr ff0 ex7) := by decide +kernel
example : roundTrip ex8 = some (printExpr ff0 ex8) := by decide +kernel
example : roundTrip ex9 = some (printExpr ff0 ex9) := by decide +kernel

/-- `['\xff': 1]` (a map key that is one invalid UTF-8 byte) — before the repair of `quoteString` /
    `unquoteString` this tree did not round-trip (the key was printed as U+FFFD) -/
def exKey : Expr := .map 0 (.cons [255] (i 1) .nil)
example : printExpr ff0 exKey = [91, 39, 255, 39, 58, 32, 49, 93] := by decide
theorem canon_exKey : Canon ff0 pf0 exKey := by
  simp only [exKey, i, Canon, CanonM, SortedKeys, keysOf]; decide
example : ∃ e', parseExprEntry pf0 (withPos 0 (toks ff0 exKey ++ [tEOF])) = .ok e' ∧ erase e' = erase exKey :=
  print_parse_roundtrip_tokens ff0 pf0 exKey canon_exKey _ (withPos_carries 0 _)
/-- invalid bytes next to escapes take the slow path of `unquoteString`: `\xff'\n\xc3` -/
example : Quote.unquoteString (quoteString [255, 39, 10, 195]) = some [255, 39, 10, 195] ∧
    quoteString [255, 39, 10, 195] = [39, 255, 92, 39, 92, 110, 195, 39] := by decide

/-- keys with every escape and multi-byte runes re-quote: `a\n\r\t\b\f'\é€😀` -/
example : Quote.unquoteString (quoteString [97, 10, 13, 9, 8, 12, 39, 92, 195, 169, 226, 130, 172, 240, 159, 152, 128]) =
    some [97, 10, 13, 9, 8, 12, 39, 92, 195, 169, 226, 130, 172, 240, 159, 152, 128] := by decide

/-- redundant parentheses: `((1)) + (2 * (3))` renders `1 + 2 * 3` and parses to it -/
def ex10 : Expr := .bin .add 0 (i 1) (.bin .mul 0 (i 2) (i 3))
def ts10 : List Tk := [tLP, tLP, ⟨.tInteger, [49]⟩, tRP, tRP, tOp .add, tLP, ⟨.tInteger, [50]⟩, tOp .mul, tLP,
  ⟨.tInteger, [51]⟩, tRP, tRP]

theorem renders_ex10 : RendersTop pf0 ex10 ts10 := by
  refine ⟨0, ts10, ?_, rfl, fun h => absurd h (Nat.not_lt_zero _)⟩
  simp only [ex10, i]
  rw [Renders]
  refine ⟨[tLP, tLP, ⟨.tInteger, [49]⟩, tRP, tRP], [tLP, ⟨.tInteger, [50]⟩, tOp .mul, tLP, ⟨.tInteger, [51]⟩, tRP, tRP],
    ⟨2, [⟨.tInteger, [49]⟩], ?_, rfl, fun _ => by decide⟩, ⟨1, [⟨.tInteger, [50]⟩, tOp .mul, tLP, ⟨.tInteger, [51]⟩, tRP], ?_, rfl, fun _ => by decide⟩, rfl⟩
  · rw [Renders]; exact ⟨[49], rfl, by decide⟩
  · rw [Renders]
    refine ⟨[⟨.tInteger, [50]⟩], [tLP, ⟨.tInteger, [51]⟩, tRP], ⟨0, _, ?_, rfl, fun h => absurd h (by decide)⟩,
      ⟨1, [⟨.tInteger, [51]⟩], ?_, rfl, fun _ => by decide⟩, rfl⟩
    · rw [Renders]; exact ⟨[50], rfl, by decide⟩
    · rw [Renders]; exact ⟨[51], rfl, by decide⟩

example : ∃ e', parseExprEntry pf0 (withPos 7 (ts10 ++ [tEOF])) = .ok e' ∧ erase e' = erase ex10 :=
  parse_complete_redundant_parens pf0 ex10 ts10 _ renders_ex10 (withPos_carries 7 _)

/-! `?:` shares the lowest level with the ternary and associates to the RIGHT (/repo 62bcb15) -/

/-- `$a ?: $b ? 1 : 2` is `$a ?: ($b ? 1 : 2)`: printed without parentheses -/
def ex11 : Expr := .bin .elvis 0 (v 97) (.tern 0 (v 98) (i 1) (i 2))
/-- `$a ?: $b ?: $c` nests to the right -/
def ex12 : Expr := .bin .elvis 0 (v 97) (.bin .elvis 0 (v 98) (v 99))
/-- a left-nested `?:` is printed with parentheses: `($a ?: $b) ?: $c` -/
def ex13 : Expr := .bin .elvis 0 (.bin .elvis 0 (v 97) (v 98)) (v 99)
/-- a `?:` as the condition of a ternary is parenthesised, as its first branch it is not: `($a ?: $b) ? $c ?: $d : $e` -/
def ex14 : Expr := .tern 0 (.bin .elvis 0 (v 97) (v 98)) (.bin .elvis 0 (v 99) (v 100)) (v 101)
/-- the right operand of `?:` extends as far as possible: `$a ?: $b + 1` -/
def ex15 : Expr := .bin .elvis 0 (v 97) (.bin .add 0 (v 98) (i 1))

example : printExpr ff0 ex11 = [36, 97, 32, 63, 58, 32, 36, 98, 32, 63, 32, 49, 32, 58, 32, 50] := by decide   -- $a ?: $b ? 1 : 2
example : printExpr ff0 ex12 = [36, 97, 32, 63, 58, 32, 36, 98, 32, 63, 58, 32, 36, 99] := by decide            -- $a ?: $b ?: $c
example : printExpr ff0 ex13 = [40, 36, 97, 32, 63, 58, 32, 36, 98, 41, 32, 63, 58, 32, 36, 99] := by decide    -- ($a ?: $b) ?: $c
example : printExpr ff0 ex14 = [40, 36, 97, 32, 63, 58, 32, 36, 98, 41, 32, 63, 32, 36, 99, 32, 63, 58, 32, 36, 100, 32, 58, 32, 36, 101] := by decide
example : printExpr ff0 ex15 = [36, 97, 32, 63, 58, 32, 36, 98, 32, 43, 32, 49] := by decide                     -- $a ?: $b + 1

example : roundTrip ex11 = some (printExpr ff0 ex11) := by decide +kernel
example : roundTrip ex12 = some (printExpr ff0 ex12) := by decide +kernel
example : roundTrip ex13 = some (printExpr ff0 ex13) := by decide +kernel
example : roundTrip ex14 = some (printExpr ff0 ex14) := by decide +kernel
example : roundTrip ex15 = some (printExpr ff0 ex15) := by decide +kernel

/-- the unparenthesised tokens `$a ?: $b ?: $c` are read as the RIGHT-nested tree, not the left-nested one -/
example : (match parseExprEntry pf0 (withPos 0 (toks ff0 ex12 ++ [tEOF])) with
    | .ok e' => some (printExpr ff0 (erase e') == printExpr ff0 ex12, printExpr ff0 (erase e') == printExpr ff0 ex13)
    | .error _ => none) = some (true, false) := by decide +kernel

theorem canon_elvis : Canon ff0 pf0 ex11 ∧ Canon ff0 pf0 ex13 ∧ Canon ff0 pf0 ex14 := by
  simp only [ex11, ex13, ex14, i, v, Canon, CanonAL]
  decide

example : ∃ e', parseExprEntry pf0 (withPos 0 (toks ff0 ex11 ++ [tEOF])) = .ok e' ∧ erase e' = erase ex11 :=
  print_parse_roundtrip_tokens ff0 pf0 ex11 canon_elvis.1 _ (withPos_carries 0 _)
example : ∃ e', parseExprEntry pf0 (withPos 0 (toks ff0 ex13 ++ [tEOF])) = .ok e' ∧ erase e' = erase ex13 :=
  print_parse_roundtrip_tokens ff0 pf0 ex13 canon_elvis.2.1 _ (withPos_carries 0 _)
example : ∃ e', parseExprEntry pf0 (withPos 0 (toks ff0 ex14 ++ [tEOF])) = .ok e' ∧ erase e' = erase ex14 :=
  print_parse_roundtrip_tokens ff0 pf0 ex14 canon_elvis.2.2 _ (withPos_carries 0 _)

end SoyVerif.Inst.C17
