#!/bin/sh
# Build everything from files on disk only (offline): Lean library + model driver, Go harness.
set -e
cd "$(dirname "$0")"
export GOFLAGS=-mod=mod GOPROXY=off GOSUMDB=off GOTOOLCHAIN=local
mkdir -p build evidence replays lean/SoyVerif/Gen
cp /repo/go.sum harness/go.sum
(cd harness && go build -tags verif -o ../build/vh .)
rm -rf build/gen.tmp && mkdir -p build/gen.tmp && ./build/vh tables build/gen.tmp && cp build/gen.tmp/*.lean lean/SoyVerif/Gen/ 2>/dev/null || true
(cd lean && lake build SoyVerif driver)
echo "setup ok"
